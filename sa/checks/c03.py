"""C03 -- no atom is silently lost, duplicated or invented."""
from __future__ import annotations

import ast
import xml.etree.ElementTree as ET

from ..cells import top_level_classes
from ..core import AnalysisError, U, calls_in, canon_guards, enclosing_loops, expand_temps, flatten_boolops, guards_of, iter_stmts, parent, walk_no_defs
from ..tables import Tables
from . import c01

# Reviewed deletion sites outside the optimisation bookkeeping (function -> what bounds the deletion).
DELETIONS = {
    "biomolecule.py::Biomolecule.repair_heavy": "extraneous atom not in the topology: must be reported by a warning in the same block",
    "biomolecule.py::Biomolecule.remove_hydrogens": "hydrogens only (guard atom.is_hydrogen); re-added by add_hydrogens",
    "biomolecule.py::Biomolecule.apply_patch": "patch-declared removals (bounded by PATCHES.xml: R4b)",
    "aa.py::HIS.set_state": "the proton not belonging to the chosen neutral tautomer (HD1/HE2)",
}


def _removed_hydrogens_are_rebuilt(prog, r4):
    """remove_hydrogens (run before PROPKA) and add_hydrogens are evaluated per residue class: a class that loses its
    hydrogens must be one whose hydrogens are built again."""
    from ..guards import Flow, Interp, Obj
    from ..objinterp import ObjRunner
    classes = [("ALA", "amino acid"), ("DA", "nucleotide"), ("WAT", "water"), ("LIG", "ligand class"), ("Residue", "generic hetero residue (ligands of a complex)")]
    removed = {}

    def extra(runner, interp, call, args, kw):
        if isinstance(call.func, ast.Attribute) and call.func.attr == "remove_atom":
            recv = interp.ev(call.func.value)
            removed.setdefault(recv["__class__"], []).append(args[0])
            return None
        return NotImplemented

    residues = []
    for cname, _ in classes:
        res = Obj({"__class__": cname, "name": cname, "atoms": [], "map": {}})
        for an, ish in (("C1", False), ("H1", True)):
            a = Obj({"__class__": "Atom", "name": an, "is_hydrogen": ish, "residue": res})
            res["atoms"].append(a)
            res["map"][an] = a
        residues.append(res)
    run = ObjRunner(prog, "biomolecule.py", extra_hook=extra)
    rh = prog.func("biomolecule.py", "Biomolecule.remove_hydrogens")
    try:
        run.call(Obj({"__class__": "Biomolecule", "residues": residues}), "remove_hydrogens")
    except Flow as fl:
        raise AnalysisError(f"remove_hydrogens stops with {fl.value} on the model") from None
    # which classes does add_hydrogens rebuild?  its residue loop is left for the others by the first guard
    ah = prog.func("biomolecule.py", "Biomolecule.add_hydrogens").node
    outer = [s for s in ah.body if isinstance(s, ast.For) and U(s.iter) == "self.residues"]
    if not outer:
        raise AnalysisError("add_hydrogens: loop over self.residues not found")
    first = next((s for s in outer[0].body if isinstance(s, ast.If) and "isinstance" in U(s.test)), None)
    if first is None:
        raise AnalysisError("add_hydrogens: class guard of the residue loop not found")
    rebuilt = set()
    for res in residues:
        it = Interp({U(outer[0].target): res}, call_hook=run.hook, loop_hook=run.loop, strict=True, name_hook=run.names)
        skip = it.truth(it.ev(first.test), first.test)
        from ..core import terminates
        if not (skip and terminates(first.body)):
            rebuilt.add(res["__class__"])
    lost = {c: v for c, v in removed.items() if c not in rebuilt}
    heavy = {c: [n for n in v if not n.startswith("H")] for c, v in removed.items() if any(not n.startswith("H") for n in v)}
    r4.add("removed-hydrogens-are-rebuilt", not lost and not heavy,
           f"remove_hydrogens strips hydrogens from {sorted(removed)}; add_hydrogens rebuilds them for {sorted(rebuilt)}" +
           (f" -- {sorted(lost)} lose their hydrogens for good (e.g. the explicit hydrogens of a ligand in a complex, before PROPKA runs)" if lost else "") +
           (f" -- heavy atoms removed: {heavy}" if heavy else ""), f"pdb2pqr/biomolecule.py:{rh.node.lineno} (Biomolecule.remove_hydrogens)")


def check(prog, rep):
    rep.explanation = (
        "partition/def-use analysis of the hit and miss lists up to the printer, family-wise pairing of temporary atom "
        "creation with cleanup in every optimisation class, post-dominance of finalize/complete in optimize_hydrogens, "
        "classification of every deletion site, closed skip set of add_hydrogens, exhaustiveness of name->class and "
        "opttype->class maps, uniqueness of atom names in every template and patch"
    )
    rep.not_decided += ["that no FLIP/LP atom survives for every packing: R3 is the structural necessary condition; the "
                        "fixed-flag state machine across try_* calls is data dependent", "heavy-atom repair success"]
    t = Tables(prog.root)
    # ------------------------------------------------------------------ R1 (shared with C01)
    c01.rule_partition(prog, rep)

    # ------------------------------------------------------------------ R2
    r2 = rep.rule("R2", "exactly the hit list is printed and the miss list is returned", floor=3)
    nt = prog.func("main.py", "non_trivial").node
    w = f"pdb2pqr/main.py:{nt.lineno} (non_trivial)"
    bind = [s for s in nt.body if isinstance(s, ast.Assign) and isinstance(s.value, ast.Call) and U(s.value.func).endswith(".apply_force_field")]
    if not bind or not isinstance(bind[0].targets[0], ast.Tuple):
        raise AnalysisError("non_trivial: 'hits, misses = biomolecule.apply_force_field(...)' not found")
    hit, miss = (U(e) for e in bind[0].targets[0].elts)
    pr = [c for c in calls_in(nt) if U(c.func).endswith("print_biomolecule_atoms")]
    r2.add("printed=hits", len(pr) == 1 and U(pr[0].args[0]) == hit, f"print_biomolecule_atoms({U(pr[0].args[0]) if pr else '?'}, ...); hit list is {hit!r}", w)
    rebinds = [s for s in iter_stmts(nt.body) if isinstance(s, ast.Assign) and any(U(tg) == hit for tg in s.targets) and s is not bind[0]]
    augs = [s for s in iter_stmts(nt.body) if isinstance(s, ast.AugAssign) and U(s.target) == hit]
    okaug = all(any("ligand" in U(tst) for tst, p in guards_of(a) if p) for a in augs)
    r2.add("hits-only-extended-by-ligand", not rebinds and okaug, f"re-bindings of {hit}: {len(rebinds)}; extensions (all inside the ligand block; "
           f"what they add is decided on the model complex, R15): {[U(a)[:60] for a in augs]}", w)
    ret = [s for s in nt.body if isinstance(s, ast.Return)]
    rd = {k.value: U(v) for k, v in zip(ret[0].value.keys, ret[0].value.values)} if ret and isinstance(ret[0].value, ast.Dict) else {}
    r2.add("returned=misses", rd.get("missed_residues") == miss and rd.get("lines") == "lines", f"returned dict: {rd}", w)
    md = prog.func("main.py", "main_driver").node
    okmd = "results['missed_residues']" in U(md.body[-1]) and isinstance(md.body[-1], ast.Return)
    r2.add("driver-returns-misses", okmd, f"main_driver returns {U(md.body[-1])[:80]}", f"pdb2pqr/main.py:{md.lineno} (main_driver)")
    # R2b disjointness in the ligand block (decided by R15 on the model complex when that evaluation is possible)
    n_rules, n_def = len(rep.rules), len(rep.deferred)
    from . import shared
    rep.guarded(shared.rule_ligand_block_model, prog, rep, "R15")
    block_modelled = len(rep.rules) > n_rules and len(rep.deferred) == n_def
    lig_app = [] if block_modelled else [c for c in calls_in(nt) if U(c.func) == "lig_atoms.append"]
    for c in lig_app:
        # the atom appended to the ligand hit list must have been taken out of (or never been in) the miss list
        blk = parent(_stmt(c))
        blk_txt = "\n".join(U(s) for s in getattr(blk, "body", []))
        removed = f"{miss}.remove(" in blk_txt
        guarded_identity = any("residue.name" in U(tst) or "isinstance(residue" in U(tst) for tst, p in guards_of(c))
        r2.add("ligand-hit-disjoint", removed, f"atoms appended to the ligand hit list are "
               f"{'removed from' if removed else 'NOT removed from'} {miss}: a ligand atom is both written and reported unassigned",
               f"pdb2pqr/main.py:{c.lineno} (non_trivial)")

    miss_app = [] if block_modelled else [c for c in calls_in(nt) if U(c.func) == f"{miss}.append"]  # shape fallback; R15 decides it on the model complex
    for c in miss_app:
        g = " and ".join(U(tst) for tst, p in guards_of(c) if p)
        ok = f"not in {miss}" in g and f"not in {hit}" in g
        r2.add("miss-append-disjoint", ok, f"an atom is appended to {miss} in the ligand block under the guard {g!r}; it must not already "
               f"be in {miss} (duplicate report) nor in {hit} (written and reported)", f"pdb2pqr/main.py:{c.lineno} (non_trivial)")
    # ------------------------------------------------------------------ R3
    r3 = rep.rule("R3", "temporary atom families (FLIP copies, lone pairs, doubled hydrogens) are cleaned on completion", floor=6)
    smod = "hydrogens/structures.py"
    opt_base = prog.cls("hydrogens/optimize.py", "Optimize")
    for ci in sorted(prog.subclasses(opt_base), key=lambda c: c.name):
        if ci.module.rel != smod:
            continue
        fams = set()
        for m in ci.methods.values():
            for n in walk_no_defs(m.node):
                if isinstance(n, ast.JoinedStr) and n.values and isinstance(n.values[-1], ast.Constant):
                    tail = str(n.values[-1].value)
                    if tail == "FLIP" and any(isinstance(c.func, ast.Attribute) and c.func.attr == "create_atom" for c in calls_in(m.node)):
                        fams.add("FLIP")
                    if tail in ("1", "2") and m.node.name == "__init__" and any(isinstance(c.func, ast.Attribute) and c.func.attr in ("create_atom", "rename_atom") for c in calls_in(m.node)):
                        fams.add("DOUBLE")
                if isinstance(n, ast.Constant) and n.value in ("LP1", "LP2"):
                    fams.add("LP")
        comp = prog.find_method(ci, "complete")
        wc = f"pdb2pqr/{smod}:{ci.node.lineno} ({ci.name})"
        if comp is None:
            r3.bad(f"complete|{ci.name}", "optimisation class without complete()", wc)
            continue
        # complete() and the self-methods it calls
        scope = [comp.node]
        for c in calls_in(comp.node):
            if isinstance(c.func, ast.Attribute) and U(c.func.value) == "self":
                m2 = prog.find_method(ci, c.func.attr)
                if m2:
                    scope.append(m2.node)
                    for c2 in calls_in(m2.node):
                        if isinstance(c2.func, ast.Attribute) and U(c2.func.value) == "self":
                            m3 = prog.find_method(ci, c2.func.attr)
                            if m3:
                                scope.append(m3.node)
        if not fams:
            r3.ok(f"family|{ci.name}:none", "class creates no temporary atoms", wc)
        for fam in sorted(fams):
            ok = False
            detail = ""
            verdict = None
            if fam in ("FLIP", "LP"):
                try:
                    verdict = completion_on_model(prog, ci, fam)
                except AnalysisError:
                    verdict = None
            if verdict is not None:
                ok, detail = verdict
                r3.add(f"family|{ci.name}:{fam}", ok, detail, wc)
                continue
            if fam in ("FLIP", "LP"):
                # fix_* may keep renamed/temporary atoms and set 'fixed', after which finalize() returns early: the
                # cleanup loop must therefore sit in complete() itself, unguarded
                for lp in [n for n in comp.node.body if isinstance(n, ast.For)]:
                    body_txt = U(lp)
                    leaves = [x for x in iter_stmts(lp.body) if isinstance(x, (ast.Break, ast.Return))]
                    if fam == "FLIP" and ".atoms" in U(lp.iter) + U(comp.node) and "endswith('FLIP')" in body_txt \
                            and "rename_atom" in body_txt and "[:-4]" in body_txt and not leaves:
                        ok = True
                        detail = "complete(): unguarded loop over the residue's atoms renames every *FLIP atom back"
                    if fam == "LP" and "startswith('LP')" in body_txt and "remove_atom" in body_txt and not leaves:
                        ok = True
                        detail = "complete(): unguarded loop over the residue's atoms removes every LP* atom"
                calls_fin = any(U(c.func) == "self.finalize" for c in calls_in(comp.node))
                ok = ok and calls_fin
            else:
                # doubled hydrogens: every method that declares the residue fixed must have removed all but one and renamed it
                setters = [m for m in ci.methods.values() if any(isinstance(x, ast.Assign) and U(x.targets[0]).endswith(".fixed")
                                                                 and U(x.value) == "1" for x in iter_stmts(m.node.body))]
                good = []
                for m in setters:
                    txt = U(m.node)
                    # a loop that removes every hydrogen of the list except the chosen one (removal guarded by "is not the chosen one")
                    loops = []
                    for n in ast.walk(m.node):
                        if isinstance(n, ast.For):
                            for c_ in calls_in(n):
                                if isinstance(c_.func, ast.Attribute) and c_.func.attr == "remove_atom" and \
                                        any(" == " in t_ and not p_ for t_, p_ in canon_guards(c_, n)):
                                    loops.append(n)
                    if loops and "self.rename(" in txt:
                        good.append(m.node.name)
                        continue
                    # or: declared fixed only once a single hydrogen is left, renaming it in the same block
                    for x in iter_stmts(m.node.body):
                        if isinstance(x, ast.Assign) and U(x.targets[0]).endswith(".fixed") and U(x.value) == "1":
                            g = [tst for tst, p in canon_guards(x) if p]
                            blk = parent(x)
                            if any("len(self.hlist) == 1" in tst for tst in g) and "self.rename(" in U(m.node):
                                good.append(m.node.name)
                ok = bool(setters) and len(good) == len(setters)
                detail = f"methods setting fixed=1: {[m.node.name for m in setters]}; of these remove all but the chosen hydrogen and rename it: {good}"
            r3.add(f"family|{ci.name}:{fam}", ok, detail or f"no unguarded cleanup loop for the {fam} family in complete()", wc)
    oh = prog.func("hydrogens/__init__.py", "HydrogenRoutines.optimize_hydrogens").node
    wo = f"pdb2pqr/hydrogens/__init__.py:{oh.lineno} (optimize_hydrogens)"
    from .shared import reach_matches
    fin = [c for c in calls_in(oh) if U(c.func).endswith(".finalize")]
    okf, whyf = False, "no finalize call"
    if fin:
        lp = _enclosing_for(fin[0])
        if lp is not None and U(lp.iter) == "optlist" and parent(lp) is oh and isinstance(lp.target, ast.Name) and U(fin[0].func) == f"{lp.target.id}.finalize":
            o = lp.target.id
            amap = {f"len({o}.hbonds) == 0": ("no-bonds", True), f"{o}.hbonds": ("no-bonds", False), f"len({o}.hbonds) > 0": ("no-bonds", False),
                    f"len({o}.hbonds) < 1": ("no-bonds", True), f"{o}.hbonds == []": ("no-bonds", True), f"{o}.residue.fixed": ("fixed", True)}
            okf, whyf = reach_matches(_stmt_of(fin[0]), lp, amap, lambda v: None if (v["no-bonds"] and v["fixed"]) else v["no-bonds"])
        else:
            whyf = "finalize is not called on the objects of a top-level loop over optlist"
    r3.add("no-partner->finalize", okf, f"objects without potential bonds (and only those) are finalised: {whyf}", wo)
    comp = [c for c in calls_in(oh) if U(c.func).endswith(".complete")]
    okc = False
    if comp:
        lp = _enclosing_for(comp[0])
        okc = lp is not None and U(lp.iter) == "network" and not guards_of(comp[0], lp) and \
            not any(isinstance(s, (ast.Break, ast.Continue)) and _enclosing_for(s) is _enclosing_for(lp) for s in iter_stmts(_enclosing_for(lp).body))
    r3.add("network->complete", okc, "every object of every network is completed unconditionally at the end of its network", wo)
    nets = [s for s in iter_stmts(oh.body) if isinstance(s, ast.For) and U(s.iter) == "optlist" and "analyze_connectivity" in U(s)]
    okn, whyn = False, "network builder not found"
    if nets and isinstance(nets[0].target, ast.Name):
        o = nets[0].target.id
        ac = [c for c in calls_in(nets[0]) if "analyze_connectivity" in U(c.func)]
        seen_lists = {U(c.func.value) for c in calls_in(nets[0]) if isinstance(c.func, ast.Attribute) and c.func.attr == "append"
                      and _enclosing_for(c) is not nets[0]}
        amap = {f"{o}.residue.fixed": ("fixed", True)}
        for sl in seen_lists:
            amap[f"{o} in {sl}"] = ("seen", True)
        okn, whyn = reach_matches(_stmt_of(ac[0]), nets[0], amap, lambda v: not v["fixed"] and not v.get("seen", False)) if ac else (False, "no call")
    r3.add("every-open-object-in-a-network", okn, f"the network builder skips only fixed or already-seen objects: {whyn}", wo)
    nt_calls = [(U(c.func), [(U(tst), p) for tst, p in guards_of(c)]) for c in sorted(calls_in(nt), key=lambda c: (c.lineno, c.col_offset))
                if U(c.func).endswith((".optimize_hydrogens", ".cleanup"))]
    okcl = [n for n, _ in nt_calls] == ["hydrogen_routines.optimize_hydrogens", "hydrogen_routines.cleanup"] and all(g == [("args.assign_only", False)] for _, g in nt_calls)
    r3.add("cleanup-on-every-path", okcl, f"non_trivial: {nt_calls}", w)

    # ------------------------------------------------------------------ R4
    r4 = rep.rule("R4", "deletions outside the optimisation bookkeeping are reported or bounded", floor=4)
    for key, f in sorted(prog.funcs.items()):
        if f.module.rel.startswith("hydrogens/") or f.module.rel in ("run.py",) or key == "residue.py::Residue.remove_atom":
            continue
        for c in calls_in(f.node):
            if not (isinstance(c.func, ast.Attribute) and c.func.attr == "remove_atom"):
                continue
            where = f"pdb2pqr/{f.module.rel}:{c.lineno} ({f.qual})"
            k = f"deletion|{key}:{U(c)}"
            if key not in DELETIONS:
                r4.bad(k, "new deletion site: atoms can vanish here without being reported", where)
                continue
            ok = True
            if key.endswith("repair_heavy"):
                blk = parent(_stmt(c))
                ok = any(U(x.func) == "_LOGGER.warning" for s in getattr(blk, "body", []) for x in calls_in(s))
            elif key.endswith("remove_hydrogens"):
                ok = any("is_hydrogen" in tst and p for tst, p in canon_guards(c))
            elif key.endswith("HIS.set_state"):
                ok = isinstance(c.args[0], ast.Constant) and c.args[0].value in ("HD1", "HE2")
            elif key.endswith("apply_patch"):
                ok = any(U(lp.iter) == "patch.remove" for lp in _all_for(c))
            r4.add(k, ok, DELETIONS[key], where)
            if key.endswith("repair_heavy"):
                # the report must reach the user: its text must not fall under the duplicate-message filter attached to the module's
                # logger (config.FILTER_WARNINGS: messages with these beginnings are dropped after a fixed number of repetitions)
                from .shared import static_head, suppressed_by_filter
                blk = parent(_stmt(c))
                hits = [(static_head(x.args[0]), suppressed_by_filter(prog, x)) for s_ in getattr(blk, "body", []) for x in calls_in(s_)
                        if U(x.func) == "_LOGGER.warning" and x.args and suppressed_by_filter(prog, x)]
                r4.add(f"deletion-report-not-filtered|{key}", not hits, "the warnings that report the deletion are not subject to the duplicate-message "
                       "filter" if not hits else f"the deletion is reported by a message beginning {hits[0][0]!r}, which does not always reach the user "
                       f"({hits[0][1]}): later deletions go unreported", where)
    rep_ = rep
    rep_.guarded(_removed_hydrogens_are_rebuilt, prog, r4)
    heavy_removed = {}
    for P in t.patch_list:
        hv = [r for r in P.remove if not r.startswith("H")]
        if hv:
            heavy_removed[P.name] = hv
    allowed_heavy = {"O2'", "P", "O1P", "O2P", "OP1", "OP2"}
    bad = {p: v for p, v in heavy_removed.items() if not set(v) <= allowed_heavy}
    r4.add("patch-removals-bounded", not bad, f"heavy atoms removed by patches: {heavy_removed}; only the 2'-hydroxyl oxygen (deoxy "
           "forms) and the 5'-terminal phosphate are allowed" + (f"; offending: {bad}" if bad else ""), "pdb2pqr/dat/PATCHES.xml")

    # ------------------------------------------------------------------ R5
    r5 = rep.rule("R5", "add_hydrogens skips a topology hydrogen only for the three closed reasons", floor=1)
    ah = prog.func("biomolecule.py", "Biomolecule.add_hydrogens").node
    inner = [n for n in ast.walk(ah) if isinstance(n, ast.For) and "reference.map" in U(n.iter)]
    if not inner:
        raise AnalysisError("add_hydrogens: loop over residue.reference.map not found")
    def norm(test, pol):
        while isinstance(test, ast.UnaryOp) and isinstance(test.op, ast.Not):
            test, pol = test.operand, not pol
        return U(flatten_boolops(test)), pol

    def silent_exits(loop, closed):
        """continue/break statements of `loop` that are neither covered by a closed reason nor announced by a warning."""
        out, n_exit = [], 0
        for st in iter_stmts(loop.body):
            if not isinstance(st, (ast.Continue, ast.Break)) or enclosing_loops(st)[:1] != [loop]:
                continue
            n_exit += 1
            gs = {norm(tst, pol) for tst, pol in guards_of(st, loop)}
            gs |= {norm(expand_temps(tst, ah), pol) for tst, pol in guards_of(st, loop)}  # (a test hoisted into a local also reads as the test itself)
            blk = parent(st)
            sibs = getattr(blk, "body", []) if st in getattr(blk, "body", []) else getattr(blk, "orelse", [])
            warned = any(U(c.func) in ("_LOGGER.warning", "_LOGGER.error") for x in sibs[: sibs.index(st)] for c in calls_in(x)) if st in sibs else False
            if not (gs & closed) and not warned:
                out.append(f"line {st.lineno}: {type(st).__name__.lower()} under {sorted(g for g, _ in gs)[:3]}")
        return out, n_exit

    closed_h = {("atomname.startswith('H')", False), ("residue.has_atom(atomname)", True),
                ("isinstance(residue, aa.CYS) and (residue.ss_bonded and atomname == 'HG')", True),
                ("isinstance(residue, aa.CYS) and residue.ss_bonded and (atomname == 'HG')", True),
                ("isinstance(residue, aa.CYS) and residue.ss_bonded and atomname == 'HG'", True),
                ("residue.rebuild_tetrahedral(atomname)", True)}  # the last one: the hydrogen has just been built
    bad_h, n_h = silent_exits(inner[0], closed_h)
    modelled = None
    try:
        from .shared import add_hydrogens_on_models
        modelled = add_hydrogens_on_models(prog)
    except AnalysisError:
        modelled = None
    if modelled is not None:
        wrong = {k: v for k, v in modelled.items() if v[0] != v[1]}
        r5.add("skip-set", not wrong, f"add_hydrogens on {len(modelled)} model residues: every missing hydrogen of the template is built except the thiol hydrogen of a "
               "bridged cysteine, one the tetrahedral completion has just built, and one with fewer than three neighbours present; heavy atoms and atoms already "
               "present are left alone" + (f" - NOT so (built, expected): {wrong}" if wrong else ""), f"pdb2pqr/biomolecule.py:{inner[0].lineno} (add_hydrogens)")
    else:
        r5.add("skip-set", not bad_h and n_h >= 3, f"{n_h} exits of the per-hydrogen loop: each is one of the closed reasons (not a hydrogen, already "
               "present, HG of a bridged cysteine) or is announced by a warning" + (f" -- silent exits: {bad_h}" if bad_h else ""),
               f"pdb2pqr/biomolecule.py:{inner[0].lineno} (add_hydrogens)")
    outer = [s for s in ah.body if isinstance(s, ast.For) and U(s.iter) == "self.residues"]
    if not outer:
        raise AnalysisError("add_hydrogens: loop over self.residues not found")
    closed_r = {("isinstance(residue, (aa.Amino, na.Nucleic))", False), ("hlist is not None and reskey in hlist", True)}
    bad_r, n_r = silent_exits(outer[0], closed_r)
    r5.add("residue-skip-set", not bad_r and n_r >= 1, f"{n_r} residue-level exits: only non-polymer residues and residues excluded through hlist are skipped"
           + (f" -- other exits: {bad_r}" if bad_r else ""), f"pdb2pqr/biomolecule.py:{ah.lineno} (add_hydrogens)")
    callers = [(k, U(c)) for k, f in prog.funcs.items() for c in calls_in(f.node) if U(c.func).endswith(".add_hydrogens") and k.split("::")[0] != "run.py"]
    r5.add("hlist-unused", all(txt.endswith("add_hydrogens()") for _, txt in callers) and bool(callers), f"callers: {callers} (no residue is excluded through hlist)",
           "pdb2pqr/main.py")
    # failure to place is reported
    from .shared import suppressed_by_filter
    warns = [c for c in calls_in(ah) if U(c.func) in ("_LOGGER.warning", "_LOGGER.error") and "Couldn't rebuild" in U(c)]
    sup = [suppressed_by_filter(prog, c) for c in warns if suppressed_by_filter(prog, c)]
    r5.add("placement-failure-warned", bool(warns) and not sup, "a hydrogen that cannot be placed is reported by a warning" +
           (f" - but the message does not always reach the user ({sup[0]})" if sup else ""),
           f"pdb2pqr/biomolecule.py:{ah.lineno} (add_hydrogens)")

    # ------------------------------------------------------------------ R6
    r6 = rep.rule("R6", "every residue name and optimisation type resolves to a class", floor=30)
    aa_cls, na_cls = top_level_classes(prog, "aa.py"), top_level_classes(prog, "na.py")
    for name, ref in list(t.aa.items()) + list(t.na.items()):
        ok = name in aa_cls or name in na_cls
        r6.add(f"class|{name}", ok, f"topology residue {name}: {'class found' if ok else 'NO class in aa.py/na.py (parsed as a generic residue, no hydrogens, no parameters)'}",
               "pdb2pqr/dat/AA.xml / NA.xml")
    rm = prog.module_constants("config.py").get("RNA_MAPPING", {})
    for k, v in rm.items():
        r6.add(f"rna-map|{k}", v in t.map, f"RNA_MAPPING {k} -> {v}: {'defined' if v in t.map else 'NOT in the topology'}", "pdb2pqr/config.py")
    hyd = ET.parse(t.dat / "HYDROGENS.xml").getroot()
    scls = {c.name for c in prog.classes.values() if c.module.rel == smod}
    for ot in sorted({e.text.strip() for e in hyd.iter("opttype")}):
        r6.add(f"opttype|{ot}", ot in scls, f"HYDROGENS.xml opttype {ot}: {'class found' if ot in scls else 'NO class in hydrogens/structures.py'}",
               "pdb2pqr/dat/HYDROGENS.xml")

    from . import shared
    shared.rule_patch_isolation(prog, rep, "R8")
    # ingestion: the structural conditions under which every input atom becomes exactly one model atom (shared with C07)
    from . import c07
    from .shared import rule_hidden_chains_model
    rep.guarded(rule_hidden_chains_model, prog, rep, "R17")
    grouping = c07.ingestion_decided_on_models(prog, rep, "R16")
    if not grouping:
        c07.rule_identity(prog, rep)       # rule id R5 of C07 -> listed here as C03.R9
        rep.rules[-1].rid = "R9"
        for ob in rep.rules[-1].obs:
            ob.rule = "R9"
    c07.rule_first_wins(prog, rep)
    rep.rules[-1].rid = "R10"
    for ob in rep.rules[-1].obs:
        ob.rule = "R10"
    c07.rule_every_record_kept(prog, rep)
    rep.rules[-1].rid = "R11"
    for ob in rep.rules[-1].obs:
        ob.rule = "R11"
    for fn_, rid_ in ((c07.rule_eof, "R12"),) + (() if grouping else ((c07.rule_flush, "R13"), (c07.rule_models, "R14"))):
        fn_(prog, rep)  # reader stops only at end of file; every pending residue is flushed; only further models are left out
        rep.rules[-1].rid = rid_
        for ob in rep.rules[-1].obs:
            ob.rule = rid_
    # ------------------------------------------------------------------ R7
    r7 = rep.rule("R7", "no template or patch defines two atoms of one name", floor=50)
    for name, ref in list(t.aa.items()) + list(t.na.items()):
        r7.add(f"unique|{name}", not ref.duplicates, f"{name}: duplicate atom names {ref.duplicates or 'none'}", "pdb2pqr/dat/AA.xml / NA.xml")
    for P in t.patch_list:
        r7.add(f"unique|patch:{P.name}", not P.duplicates, f"patch {P.name}: duplicate atom names {P.duplicates or 'none'}", "pdb2pqr/dat/PATCHES.xml")


def _stmt(n):
    while n is not None and not isinstance(n, ast.stmt):
        n = parent(n)
    return n


def _stmt_of(node):
    while node is not None and not isinstance(node, ast.stmt):
        node = parent(node)
    return node


def _enclosing_for(n):
    p = parent(n)
    while p is not None and not isinstance(p, (ast.For, ast.FunctionDef)):
        p = parent(p)
    return p if isinstance(p, ast.For) else None


def _all_for(n):
    out = []
    p = parent(n)
    while p is not None and not isinstance(p, ast.FunctionDef):
        if isinstance(p, ast.For):
            out.append(p)
        p = parent(p)
    return out


def completion_on_model(prog, ci, fam):
    """complete() of an optimisation class evaluated on a model residue that still holds temporary atoms of the family, with finalize() replaced
    by a no-op that may have declared the residue fixed (fix_* does so and finalize() then returns early): afterwards no temporary atom may be
    left - FLIP copies carry their plain names again, lone pairs are gone.  -> (ok, text)."""
    from ..guards import Flow, Obj
    from ..objinterp import ObjRunner
    temp = {"FLIP": ["OD1FLIP", "ND2FLIP", "HD21FLIP"], "LP": ["LP1", "LP2"]}[fam]
    keep = ["CB", "CG"] if fam == "FLIP" else ["O", "H1"]
    results = []
    for fixed in (0, 1):
        res = Obj({"__class__": "ASN" if fam == "FLIP" else "WAT", "name": "ASN" if fam == "FLIP" else "HOH", "fixed": fixed, "atoms": [], "map": {}})
        for n in keep + temp:
            a = Obj({"__class__": "Atom", "name": n, "residue": res, "cell": None, "bonds": []})
            res["atoms"].append(a)
            res["map"][n] = a
        finalized = []

        def extra(runner, interp, call, args, kw, res=res, finalized=finalized):
            f_ = call.func
            if isinstance(f_, ast.Attribute):
                if f_.attr == "finalize" and U(f_.value) == "self":
                    finalized.append(True)
                    return None
                if f_.attr in ("remove_cell", "add_cell"):
                    return None
                try:
                    recv = interp.ev(f_.value)
                except AnalysisError:
                    return NotImplemented
                if recv is res:
                    if f_.attr == "remove_atom":
                        atom = res["map"].pop(args[0], None)
                        res["atoms"][:] = [x for x in res["atoms"] if x is not atom]
                        return None
                    if f_.attr == "rename_atom":
                        atom = res["map"].pop(args[0], None)
                        if atom is not None:
                            atom["name"] = args[1]
                            res["map"][args[1]] = atom
                        return None
                    if f_.attr == "get_atom":
                        return res["map"].get(args[0])
                    if f_.attr == "has_atom":
                        return args[0] in res["map"]
            return NotImplemented

        run = ObjRunner(prog, ci.module.rel, extra_hook=extra)
        opt = Obj({"__class__": ci.name, "residue": res, "routines": Obj({"__class__": "<routines>", "cells": Obj({"__class__": "<cells>"})}),
                   "optinstance": None, "atomlist": [], "hbonds": [], "map": {}})
        try:
            run.call(opt, "complete")
        except Flow as fl:
            return False, f"{ci.name}.complete() stops with {fl.value} on the model residue"
        names = sorted(a["name"] for a in res["atoms"])
        want = sorted(keep + ([t_[:-4] for t_ in temp] if fam == "FLIP" else []))
        results.append((fixed, names, want, bool(finalized)))
    bad = [f"residue {'already declared fixed' if fx else 'open'}: atoms afterwards {nm}, expected {wt}" + ("" if fin else "; finalize() was not called")
           for fx, nm, wt, fin in results if nm != wt or not fin]
    return not bad, (f"{ci.name}.complete() on a model residue holding {temp} (residue open / already declared fixed): " +
                     ("no temporary atom is left" if not bad else "; ".join(bad)))
