"""C08 -- the PQR file is a faithful, re-readable serialisation of the model.

Decided statically by string-layout abstract interpretation of Atom.get_common_string_rep /
get_pqr_string, the re-spacing in main.print_pqr and the token reader Atom.from_pqr_line,
over the field domains the property's quantifier declares.
"""
from __future__ import annotations

import ast
import re

from ..core import AnalysisError, U, calls_in, iter_stmts, try_fold, walk_no_defs
from ..layout import AStr, C, Layout, N, S, Src, State, _SrcNode, describe, offsets

DOMAINS = {
    "self.type": [C("ATOM"), C("HETATM")],
    "self.serial": [N("serial 1..9999999", [1, 9, 10, 99999, 100000, 9999999])],
    "self.name": [S("atom name (1-4 chars)", 1, 4)],
    "self.res_name": [S("residue name (1-4 chars)", 1, 4)],
    "self.chain_id": [C(""), S("chain id (1 char)", 1, 1)],
    "chainflag": [C(True), C(False)],
    "self.res_seq": [N("res_seq -999..99999", [-999, -1, 0, 9, 999, 1000, 9999, 10000, 99999])],
    "self.ins_code": [C(""), S("insertion code (1 char)", 1, 1)],
    "self.x": [N("coordinate +-99999.999", [-99999.999, -1000.0, -999.999, -0.001, 0.0, 9999.999, 10000.0, 99999.999])],
    "self.ffcharge": [N("charge |q|<10", [-9.9999, -0.0001, 0.0, 9.9999])],
    "self.radius": [N("radius 0<=r<10", [0.0, 0.0001, 9.9999])],
}
DOMAINS["self.y"] = DOMAINS["self.x"]
DOMAINS["self.z"] = DOMAINS["self.x"]
FIELD_OF = {"self.type": "type", "self.serial": "serial", "self.name": "name", "self.res_name": "res_name",
            "self.chain_id": "chain_id", "self.res_seq": "res_seq", "self.ins_code": "ins_code", "self.x": "x",
            "self.y": "y", "self.z": "z", "self.ffcharge": "charge", "self.radius": "radius"}
MIN_DECIMALS = {"self.x": 3, "self.y": 3, "self.z": 3, "self.ffcharge": 4, "self.radius": 4}


def source_of(node):
    if isinstance(node, _SrcNode):
        return node.key
    if isinstance(node, ast.Attribute) and isinstance(node.value, ast.Name) and node.value.id == "self":
        k = f"self.{node.attr}"
        return k if k in DOMAINS else None
    if isinstance(node, ast.Name) and node.id == "chainflag":
        return "chainflag"
    return None


def writer_layouts(prog):
    """All path layouts of the fixed-column PQR line."""
    common = prog.func("structures.py", "Atom.get_common_string_rep").node
    pqr = prog.func("structures.py", "Atom.get_pqr_string").node
    def method_of(cls, meth):
        ci = next(iter(prog.classes_by_name.get(cls, [])), None)
        fi = prog.find_method(ci, meth) if ci is not None else None
        return fi.node if fi is not None else None

    # small helpers the formatter may call: functions of its module, methods of its class (called on self, on the class)
    helpers = {n.name: n for n in prog.module("structures.py").tree.body if isinstance(n, ast.FunctionDef) and len(n.body) <= 16}
    for cdef in [n for n in prog.module("structures.py").tree.body if isinstance(n, ast.ClassDef) and n.name == "Atom"]:
        for m in cdef.body:
            if isinstance(m, ast.FunctionDef) and len(m.body) <= 16 and m.name not in ("get_common_string_rep", "get_pqr_string", "get_pdb_string", "__init__", "__str__"):
                for pre in ("self", "Atom", "cls"):
                    helpers[f"{pre}.{m.name}"] = m
    eng = Layout(DOMAINS, source_of, consts={k: v for k, v in prog.module_env("structures.py").items() if isinstance(v, (int, str, dict))},
                 method_of=method_of, helpers=helpers)
    body = [s for s in common.body if not (isinstance(s, ast.Expr) and isinstance(s.value, ast.Constant))]
    states = eng.run(body)
    finals = []
    pbody = [s for s in pqr.body if not (isinstance(s, ast.Expr) and isinstance(s.value, ast.Constant))]
    first = pbody[0]
    if not (isinstance(first, ast.Assign) and isinstance(first.value, ast.Call)
            and U(first.value.func) == "self.get_common_string_rep"):
        # any other way of putting the line together: the common part is followed like every other helper of the formatter
        calls_common = [c for c in calls_in(pqr) if U(c.func) == "self.get_common_string_rep"]
        if not calls_common:
            raise AnalysisError("get_pqr_string: does not use self.get_common_string_rep(...)")
        for c in calls_common:
            kw = {k.arg: U(k.value) for k in c.keywords}
            if kw.get("chainflag", U(c.args[0]) if c.args else None) != "chainflag":
                raise AnalysisError("get_pqr_string: chainflag is not forwarded to get_common_string_rep")
        eng.helpers["self.get_common_string_rep"] = common
        for f in eng.run(pbody):
            if not f.done or not isinstance(f.result, AStr):
                raise AnalysisError("get_pqr_string: a path does not return a string layout")
            finals.append(f)
        return eng, finals
    kw = {k.arg: U(k.value) for k in first.value.keywords}
    if kw.get("chainflag", U(first.value.args[0]) if first.value.args else None) != "chainflag":
        raise AnalysisError("get_pqr_string: chainflag is not forwarded to get_common_string_rep")
    outvar = first.targets[0].id
    for st in states:
        if not st.done or not isinstance(st.result, AStr):
            raise AnalysisError("get_common_string_rep: a path does not return a string layout")
        s2 = State(env={outvar: st.result}, refine=dict(st.refine))
        # the None fall-backs of charge/radius are not part of the domain (only hits are printed: C03.R2)
        for f in eng.run(pbody[1:], s2):
            if not f.done or not isinstance(f.result, AStr):
                raise AnalysisError("get_pqr_string: a path does not return a string layout")
            finals.append(f)
    return eng, finals


def format_specs(finals):
    """Format specs under which each numeric field reaches the line, read off the path layouts (not the syntax)."""
    specs = {}
    for f in finals:
        for seg in f.result.segs:
            if seg.kind == "fld" and seg.src in MIN_DECIMALS and seg.spec not in specs.setdefault(seg.src, []):
                specs[seg.src].append(seg.spec)
    return specs


def insertion_points(prog):
    """Offsets at which print_pqr inserts a blank in --whitespace mode: print_pqr is evaluated on model lines made of distinct
    non-blank characters (whatever way the re-spacing is written); if that is not possible the syntactic extraction is used."""
    try:
        return insertion_points_model(prog)
    except AnalysisError:
        return insertion_points_syntactic(prog)


def insertion_points_model(prog):
    from ..guards import Flow, Obj
    from ..objinterp import ObjRunner
    fn = prog.func("main.py", "print_pqr").node
    chars = "".join(chr(c) for c in range(0x41, 0x41 + 26)) + "".join(chr(c) for c in range(0x61, 0x61 + 26)) + "0123456789!#$%&()*+,-./:;<=>?@[]^_{|}~"
    results = []
    for rec in ("ATOM  ", "HETATM"):
        line = rec + chars[: 80 - len(rec)] + "\n"
        written = []

        def extra(runner, interp, call, args, kw, written=written):
            if U(call.func) == "open":
                return Obj({"__class__": "FileModel"})
            if isinstance(call.func, ast.Attribute) and call.func.attr == "write":
                recv = interp.ev(call.func.value)
                if isinstance(recv, dict) and recv.get("__class__") == "FileModel":
                    written.append(args[0])
                    return None
            return NotImplemented

        run = ObjRunner(prog, "main.py", extra_hook=extra)
        argsm = Obj({"__class__": "Namespace", "whitespace": True, "output_pqr": "model.pqr"})
        try:
            run.call_function("main.py", "print_pqr", argsm, [line], [], [], False)
        except Flow as fl:
            raise AnalysisError(f"print_pqr stops with {fl.value} on the model line") from None
        out = "".join(str(x) for x in written)
        cuts, problems = [], []
        i = j = 0
        while i < len(line) and j < len(out):
            if out[j] == line[i]:
                i += 1
                j += 1
            elif out[j] == " ":
                cuts.append(i)
                j += 1
            else:
                problems.append(f"character {line[i]!r} at column {i} is lost or replaced (output has {out[j]!r})")
                break
        if not problems and (i < len(line) or j < len(out)):
            problems.append(f"the re-spaced record ends after {j} characters; {len(line) - i} characters of the line are dropped" if i < len(line)
                            else f"{len(out) - j} extra characters are written after the record")
        results.append((cuts, problems))
    if results[0][0] != results[1][0]:
        results[0][1].append(f"ATOM and HETATM records are re-spaced differently: {results[0][0]} vs {results[1][0]}")
    return fn, results[0][0], results[0][1] + results[1][1]


def insertion_points_syntactic(prog):
    """Offsets at which print_pqr inserts a blank in --whitespace mode.

    Recognised shapes: a chain `line[a:b] + " " + line[b:c] + ...`, or `" ".join(line[i:j] for i, j in zip(starts, ends))`
    with `starts`/`ends` folding to constant sequences (module constants and star-unpacking included)."""
    fn = prog.func("main.py", "print_pqr").node
    consts = prog.module_constants("main.py")
    best = None
    for n in walk_no_defs(fn):
        if isinstance(n, ast.BinOp) and isinstance(n.op, ast.Add) and not (isinstance(parent_of(n), ast.BinOp)):
            parts = []

            def flat(e):
                if isinstance(e, ast.BinOp) and isinstance(e.op, ast.Add):
                    flat(e.left)
                    flat(e.right)
                else:
                    parts.append(e)

            flat(n)
            if sum(isinstance(p, ast.Subscript) for p in parts) >= 2:
                best = ("chain", n, parts)
    if best is None:
        for c in calls_in(fn):
            if isinstance(c.func, ast.Attribute) and c.func.attr == "join" and isinstance(c.func.value, ast.Constant) \
                    and isinstance(c.func.value.value, str) and c.func.value.value.strip() == "" and c.func.value.value \
                    and c.args and isinstance(c.args[0], (ast.GeneratorExp, ast.ListComp)):
                gen = c.args[0]
                if len(gen.generators) == 1 and isinstance(gen.elt, ast.Subscript) and isinstance(gen.elt.slice, ast.Slice):
                    best = ("join", c, gen)
    if best is None:
        raise AnalysisError("print_pqr: the re-spacing expression (slices joined by blanks) was not found")
    problems, cuts = [], []
    if best[0] == "chain":
        node, parts = best[1], best[2]
        pos = 0
        for p in parts:
            if isinstance(p, ast.Subscript) and isinstance(p.slice, ast.Slice):
                lo = try_fold(p.slice.lower, consts) if p.slice.lower else 0
                hi = try_fold(p.slice.upper, consts) if p.slice.upper else None
                if lo != pos:
                    problems.append(f"slice {U(p)} starts at {lo}, previous slice ended at {pos} (characters lost or repeated)")
                pos = hi
            elif isinstance(p, ast.Constant) and isinstance(p.value, str) and p.value.strip() == "" and p.value:
                cuts.append(pos)
            else:
                problems.append(f"unexpected piece {U(p)}")
        if pos is not None:
            problems.append("the last slice is bounded: the tail of the line is dropped")
        return node, cuts, problems
    node, gen = best[1], best[2]
    g = gen.generators[0]
    env = dict(consts)
    for st in iter_stmts(fn.body):
        if isinstance(st, ast.Assign) and isinstance(st.targets[0], ast.Name):
            v = try_fold(st.value, env)
            if v is not None:
                env[st.targets[0].id] = v
    pairs = None
    if isinstance(g.iter, ast.Call) and U(g.iter.func) == "zip" and len(g.iter.args) == 2:
        a, b = try_fold(g.iter.args[0], env), try_fold(g.iter.args[1], env)
        if isinstance(a, (list, tuple)) and isinstance(b, (list, tuple)):
            pairs = list(zip(a, b))
    elif isinstance(g.iter, ast.Call) and U(g.iter.func).endswith("pairwise") and g.iter.args:
        a = try_fold(g.iter.args[0], env)
        if isinstance(a, (list, tuple)):
            pairs = list(zip(a, a[1:]))
    else:
        a = try_fold(g.iter, env)
        if isinstance(a, (list, tuple)) and all(isinstance(x, (list, tuple)) and len(x) == 2 for x in a):
            pairs = [tuple(x) for x in a]
    tnames = [U(e) for e in g.target.elts] if isinstance(g.target, ast.Tuple) else []
    if pairs is None or len(tnames) != 2 or U(gen.elt.slice.lower) != tnames[0] or U(gen.elt.slice.upper) != tnames[1]:
        raise AnalysisError("print_pqr: join-based re-spacing whose slice bounds do not fold to constants")
    pos = 0
    for k, (lo, hi) in enumerate(pairs):
        if lo != pos:
            problems.append(f"slice [{lo}:{hi}] starts at {lo}, previous slice ended at {pos} (characters lost or repeated)")
        pos = hi
        if k < len(pairs) - 1:
            cuts.append(hi)
    if pos is not None:
        problems.append("the last slice is bounded: the tail of the line is dropped")
    return node, cuts, problems


def parent_of(n):
    return getattr(n, "_parent", None)


def reader_order(prog):
    fn = prog.func("structures.py", "Atom.from_pqr_line").node
    order = []
    for st in fn.body:
        if isinstance(st, ast.Assign) and U(st.targets[0]).startswith("atom.") and "pop(0)" in U(st.value):
            order.append(U(st.targets[0])[5:])
        elif isinstance(st, ast.If) and any(U(t.targets[0]) == "atom.type" for t in iter_stmts([st]) if isinstance(t, ast.Assign)):
            order.append("type")
        elif isinstance(st, ast.Try):
            body_attr = [U(s.targets[0])[5:] for s in st.body if isinstance(s, ast.Assign) and U(s.targets[0]).startswith("atom.")]
            h = st.handlers[0] if st.handlers else None
            hattrs = [(U(s.targets[0])[5:], "pop(0)" in U(s.value)) for s in (h.body if h else [])
                      if isinstance(s, ast.Assign) and U(s.targets[0]).startswith("atom.")]
            opt = [a for a, popped in hattrs if not popped]
            order += [a + "?" for a in opt] + body_attr
    return order


def check(prog, rep):
    rep.explanation = (
        "string-layout abstract interpretation of the PQR line formatter over the declared field domains (all "
        "paths: record type x name length x residue-name length x chain flag/presence x insertion code), of the "
        "--whitespace re-spacing and of the token reader's field order"
    )
    rep.exhaustive = True
    rep.assumptions += ["declared domains: serial 1..9999999, res_seq -999..99999, names 1-4 chars, chain/iCode 0-1 "
                        "char, |x|,|y|,|z| <= 99999.999, |q| < 10, 0 <= r < 10"]
    rep.not_decided += ["numeric rendering of individual values beyond width/precision"]
    rep.guarded(rule_model_atoms, prog, rep)  # first: a violation found on the model atoms stands even if the layouts below cannot be analysed
    from .shared import rule_pqr_reader
    n_rules, n_def = len(rep.rules), len(rep.deferred)
    rep.guarded(rule_pqr_reader, prog, rep, "R6")
    reader_modelled = len(rep.rules) > n_rules and len(rep.deferred) == n_def
    eng, finals = writer_layouts(prog)
    rep.analysed["layout_paths"] = len(finals)
    where = "pdb2pqr/structures.py (Atom.get_common_string_rep / get_pqr_string)"

    # ------------------------------------------------------------------ R1
    r1 = rep.rule("R1", "no field is silently truncated within its declared domain", floor=12)
    fields_seen = {}
    for f in finals:
        for seg, a, b, c, d in offsets(f.result):
            if seg.kind == "fld" and seg.src in FIELD_OF:
                cur = fields_seen.setdefault(seg.src, {"trunc": False, "w": set(), "c": [99, 0], "off": set()})
                cur["trunc"] |= seg.trunc
                cur["w"].add((seg.wlo, seg.whi))
                cur["c"][0] = min(cur["c"][0], seg.clo)
                cur["c"][1] = max(cur["c"][1], seg.chi)
                cur["off"].add((a, b))
    for src, fname in FIELD_OF.items():
        if src not in fields_seen:
            r1.bad(f"trunc|{fname}", f"field {fname} is not written to the PQR line on any path", where)
            continue
        info = fields_seen[src]
        dom = DOMAINS[src][-1].label
        r1.add(f"trunc|{fname}", not info["trunc"],
               f"{fname}: formatted width over the domain [{dom}] vs kept width {sorted(info['w'])}: "
               f"{'content can be CUT by the slice' if info['trunc'] else 'always fits'}", where)
    # line width is fixed on every path (fixed-column readers depend on it)
    widths = {f.result.width() for f in finals}
    r1.add("fixed-width", all(lo == hi for lo, hi in widths) and len(widths) == 1,
           f"total line width over all {len(finals)} paths: {sorted(widths)}", where)

    # ------------------------------------------------------------------ R2
    r2 = rep.rule("R2", "--whitespace: insertions fall on field boundaries and adjacent fields stay separated", floor=8)
    node, cuts, problems = insertion_points(prog)
    pw = f"pdb2pqr/main.py:{node.lineno} (print_pqr)"
    r2.add("slices-contiguous", not problems, "; ".join(problems) or f"slices are contiguous; blanks inserted at {cuts}", pw)
    pair_ok = {}
    cut_bad = set()
    for f in finals:
        offs = offsets(f.result)
        if any(a != b or c != d for _, a, b, c, d in offs):
            continue  # reported by fixed-width
        bounds = {a for _, a, _, _, _ in offs} | {offs[-1][3]}
        for cpos in cuts:
            if cpos not in bounds:
                inside = [s for s, a, _, c, _ in offs if a < cpos < c]
                cut_bad.add((cpos, inside[0].src if inside and inside[0].kind == "fld" else "literal"))
        # adjacency of non-empty fields
        toks = []
        for seg, a, _, c, _ in offs:
            if seg.kind == "fld" and seg.src in FIELD_OF and seg.chi > 0:
                toks.append((seg, a, c))
        for (s1, a1, c1), (s2, a2, c2) in zip(toks, toks[1:]):
            blanks = 0
            blanks += (s1.whi - s1.chi) if s1.align == "l" else 0
            blanks += (s2.whi - s2.chi) if s2.align == "r" else 0
            for seg, a, _, c, _ in offs:
                if a >= c1 and c <= a2:
                    if seg.kind == "lit":
                        blanks += sum(1 for ch in seg.text if ch == " ")
                    elif seg.chi == 0 or seg.blank_content:
                        blanks += seg.wlo
            blanks += sum(1 for cpos in cuts if c1 <= cpos <= a2)
            key = (FIELD_OF[s1.src], FIELD_OF[s2.src])
            pair_ok[key] = pair_ok.get(key, True) and blanks >= 1
    for cpos in cuts:
        bad = [b for b in cut_bad if b[0] == cpos]
        r2.add(f"insertion|{cpos}", not bad, f"blank inserted at offset {cpos} "
               f"{'splits field ' + str(bad[0][1]) if bad else 'falls on a field boundary on every path'}", pw)
    for (f1, f2), ok in sorted(pair_ok.items()):
        r2.add(f"sep|{f1}+{f2}", ok, f"adjacent fields {f1} and {f2}: "
               f"{'a blank is guaranteed between them' if ok else 'NO guaranteed blank for some values of the domain: the tokens merge'}",
               where)

    # ------------------------------------------------------------------ R3
    r3 = rep.rule("R3", "token reader consumes fields in the order the writer emits them", floor=0 if reader_modelled else 1)
    worder = []
    for seg, *_ in offsets(max(finals, key=lambda f: len([s for s in f.result.segs if s.kind == 'fld' and s.src in FIELD_OF and s.chi > 0])).result):
        if seg.kind == "fld" and seg.src in FIELD_OF and FIELD_OF[seg.src] not in worder:
            worder.append(FIELD_OF[seg.src])
    if not reader_modelled:  # (with the reader decided on the writer's own lines by R6 the order of its statements is immaterial)
        rorder = reader_order(prog)
        rnorm = [a.rstrip("?") for a in rorder]
        r3.add("order", rnorm == worder, f"writer emits {worder}; reader consumes {rorder}",
               "pdb2pqr/structures.py (Atom.from_pqr_line)")
        optional = [a for a in rorder if a.endswith("?")]
        r3.add("optional-tokens", optional == ["chain_id?", "ins_code?"],
               f"optional tokens recognised by failed numeric parse: {optional} (sound only if R2 separates them)",
               "pdb2pqr/structures.py (Atom.from_pqr_line)")
    else:
        r3.info["decided_by"] = "R6 (reader evaluated on the writer's own lines)"

    # ------------------------------------------------------------------ R4
    r4 = rep.rule("R4", "format specs keep >=3 / >=4 / >=4 decimals for coordinates / charge / radius", floor=5)
    specs = format_specs(finals)
    for src, need in MIN_DECIMALS.items():
        sp = specs.get(src, [])
        decs = []
        for s in sp:
            m = re.search(r"\.(\d+)f", s or "")
            decs.append(int(m.group(1)) if m else -1)
        r4.add(f"precision|{FIELD_OF[src]}", bool(decs) and min(decs) >= need,
               f"{FIELD_OF[src]} formatted with specs {sp}; needs >= {need} decimals fixed-point", where)
    rule_chainflag(prog, rep)


def rule_chainflag(prog, rep):
    r5 = rep.rule("R5", "every PQR print site forwards --keep-chain to the formatter", floor=2)
    for rel, qual in (("main.py", "main_driver"), ("main.py", "non_trivial")):
        fn = prog.func(rel, qual).node
        for c in calls_in(fn):
            if not U(c.func).endswith("print_biomolecule_atoms"):
                continue
            kw = {k.arg: U(k.value) for k in c.keywords}
            if kw.get("pdbfile") == "True":
                continue  # PDB-format lines always carry the chain
            flag = kw.get("chainflag", U(c.args[1]) if len(c.args) > 1 else None)
            r5.add(f"chainflag|{qual}:{U(c.args[0]) if c.args else kw.get('atomlist')}", flag == "args.keep_chain",
                   f"print_biomolecule_atoms(..., chainflag={flag}); the chain column is written only when the flag is forwarded",
                   f"pdb2pqr/{rel}:{c.lineno} ({qual})")
    pba = prog.func("io.py", "print_biomolecule_atoms").node
    wp = f"pdb2pqr/io.py:{pba.lineno} (print_biomolecule_atoms)"
    try:
        verdict = printer_on_model(prog)
        r5.add("chainflag|printer", not verdict, "print_biomolecule_atoms on model atoms of two chains: every record is the formatter's line for that atom under the "
               "flag it was given, with and without --keep-chain" + (f" - NOT so: {verdict}" if verdict else ""), wp)
    except AnalysisError:
        fw = [U(k.value) for c in calls_in(pba) if U(c.func).endswith("get_pqr_string") for k in c.keywords if k.arg == "chainflag"]
        r5.add("chainflag|printer", fw == ["chainflag"], f"print_biomolecule_atoms hands {fw} to get_pqr_string", wp)


def printer_on_model(prog):
    """io.print_biomolecule_atoms evaluated on model atoms; returns a description of the first discrepancy or ''."""
    from ..guards import Flow, Obj
    from ..objinterp import ObjRunner
    keys = ("type", "serial", "name", "res_name", "chain_id", "res_seq", "ins_code", "x", "y", "z", "charge", "radius")
    for flag in (False, True):
        atoms = []
        for rec in MODEL_ATOMS[:4]:
            f = dict(zip(keys, rec))
            atoms.append(Obj({"__class__": "Atom", "type": f["type"], "serial": f["serial"], "name": f["name"], "res_name": f["res_name"], "chain_id": f["chain_id"] or "Z",
                              "res_seq": f["res_seq"], "ins_code": f["ins_code"], "x": f["x"], "y": f["y"], "z": f["z"], "ffcharge": f["charge"], "radius": f["radius"],
                              "alt_loc": "", "occupancy": 1.0, "temp_factor": 0.0, "seg_id": "", "element": "", "charge": "", "residue": None}))
        run = ObjRunner(prog, "io.py")
        try:
            lines = run.call_function("io.py", "print_biomolecule_atoms", list(atoms), flag)
        except Flow as fl:
            return f"stops with {fl.value}"
        if not isinstance(lines, list):
            raise AnalysisError("print_biomolecule_atoms did not return a list on the model")
        recs = [ln for ln in "".join(lines).splitlines() if ln.startswith(("ATOM", "HETATM"))]
        if len(recs) != len(atoms):
            return f"{len(recs)} records for {len(atoms)} atoms (chainflag={flag})"
        for k, (a, ln) in enumerate(zip(atoms, recs), start=1):
            want = ObjRunner(prog, "structures.py").call(Obj({**a, "serial": k}), "get_pqr_string", chainflag=flag)
            if ln != str(want).rstrip("\n"):
                return f"chainflag={flag}: record {ln!r} is not the formatter's line {want!r}"
    return ""


# model atoms whose every field fits the columns of the format (values beyond them are R1's business): each row varies several fields
MODEL_ATOMS = [
    # type, serial, name, res_name, chain, res_seq, ins_code, x, y, z, charge, radius
    ("ATOM", 1, "N", "MET", "A", 1, "", 26.8, 41.153, 3.834, -0.32, 2.0),
    ("ATOM", 99999, "HD11", "LEU", "B", 9999, "", 1234.568, -999.999, 9999.999, 0.1234, 1.487),
    ("HETATM", 1234, "O", "HOH", "", 301, "", -0.001, 0.0005, 0.0, -0.834, 1.7683),
    ("HETATM", 12345, "C1", "LIG", "C", -999, "", 2500.125, 1000.0, -150.375, 9.9999, 9.9999),
    ("ATOM", 20, "HT1", "TER", "A", 1, "", -123.456, 2.0, -99.999, 0.33, 0.2245),
    ("ATOM", 21, "OT1", "TER", "", 129, "", 100.0, 999.9995, 5432.101, -0.67, 1.7),
    ("ATOM", 300, "1HD1", "ILE", "A", -1, "", 7.0, 8.0, 9.0, -9.9999, 0.0),
    ("ATOM", 301, "P", "A", "A", 12, "", 0.0004, -0.0004, 1999.9994, 1.1659, 2.1),
    ("ATOM", 302, "C5'", "DA5", "A", 13, "", 10.0, 100.0, 1000.0, -0.0069, 1.908),
    ("ATOM", 303, "CA", "CYX", "D", 1000, "", 4321.0005, 0.1, -0.1, 0.0001, 0.0001),
    ("ATOM", 304, "CA", "HIS", "A", 52, "A", 1.0, 2.0, 3.0, 0.0188, 1.908),
    # written one after the other, as in a file: neighbours that differ in one identifying field only (insertion code, chain, number, residue name)
    ("ATOM", 305, "CA", "HIS", "A", 52, "B", 1.5, 2.5, 3.5, 0.0188, 1.908),
    ("ATOM", 306, "CA", "HIS", "A", 52, "", 2.0, 3.0, 4.0, 0.0188, 1.908),
    ("ATOM", 307, "CA", "HIS", "B", 52, "", 2.5, 3.5, 4.5, 0.0188, 1.908),
    ("ATOM", 308, "CA", "HIS", "B", 53, "", 3.0, 4.0, 5.0, 0.0188, 1.908),
    ("ATOM", 309, "CA", "HID", "B", 53, "", 3.5, 4.5, 5.5, 0.0188, 1.908),
    ("ATOM", 310, "CB", "HID", "B", 53, "", 4.0, 5.0, 6.0, 0.0188, 1.908),
]


def rule_model_atoms(prog, rep):
    """The writer (Atom.get_pqr_string, then print_pqr) is evaluated on model atoms; the line is read back by an independent reader - fixed
    columns for the default layout, blank-separated tokens for --whitespace - and compared with the atom to the property's precision."""
    from ..guards import Flow, Obj
    from ..objinterp import ObjRunner
    from .shared import written_file
    r = rep.rule("R7", "model atoms: every field of the written record reads back as the model value to the stated precision", floor=20)
    where = "pdb2pqr/structures.py (Atom.get_pqr_string) / pdb2pqr/main.py (print_pqr)"
    keys = ("type", "serial", "name", "res_name", "chain_id", "res_seq", "ins_code", "x", "y", "z", "charge", "radius")
    tol = {"x": 0.001, "y": 0.001, "z": 0.001, "charge": 0.0001, "radius": 0.0001}

    def differs(field, got, want):
        if field in tol:
            return got is None or abs(got - want) > tol[field] / 2 + 1e-9  # a value rounded to the stated precision is at most half a unit off
        return got != want

    runners = {False: ObjRunner(prog, "structures.py"), True: ObjRunner(prog, "structures.py")}  # one process writes all atoms, in order
    for rec in MODEL_ATOMS:
        f = dict(zip(keys, rec))
        for chainflag in (False, True):
            a = Obj({"__class__": "Atom", "type": f["type"], "serial": f["serial"], "name": f["name"], "res_name": f["res_name"], "chain_id": f["chain_id"],
                     "res_seq": f["res_seq"], "ins_code": f["ins_code"], "x": f["x"], "y": f["y"], "z": f["z"], "ffcharge": f["charge"],
                     "radius": f["radius"], "alt_loc": "", "occupancy": 1.0, "temp_factor": 0.0, "seg_id": "", "element": "", "charge": "", "residue": None})
            run = runners[chainflag]
            tag = f"{f['type']}:{f['serial']}|{'--keep-chain' if chainflag else 'no chain'}"
            try:
                line = run.call(a, "get_pqr_string", chainflag=chainflag)
            except Flow as fl:
                r.bad(f"atom|{tag}|written", f"get_pqr_string stops with {fl.value} on the model atom {rec}", where)
                continue
            if not isinstance(line, str):
                raise AnalysisError("Atom.get_pqr_string did not return a string on a model atom")
            want = dict(f)
            if not chainflag:
                want["chain_id"] = ""
            # default layout, fixed columns (wwPDB columns up to z; charge and radius follow as two blank-separated numbers)
            tail = line[54:].split()
            got = {"type": line[0:6].strip(), "serial": _int(line[6:11]), "name": line[12:16].strip(), "res_name": line[16:20].strip(),
                   "chain_id": line[21:22].strip(), "res_seq": _int(line[22:26]), "ins_code": line[26:27].strip(), "x": _flt(line[30:38]),
                   "y": _flt(line[38:46]), "z": _flt(line[46:54]), "charge": _flt(tail[0]) if len(tail) == 2 else None,
                   "radius": _flt(tail[1]) if len(tail) == 2 else None}
            bad = {k: (got[k], want[k]) for k in keys if differs(k, got[k], want[k])}
            r.add(f"atom|{tag}|columns", not bad, f"{line.rstrip()!r}: " + ("every field reads back from its columns" if not bad else
                  f"read back by columns (read, model): {bad}"), where)
            # --whitespace layout, blank-separated tokens (insertion codes are glued to the residue number: listed finding R2|sep|res_seq+ins_code)
            if f["ins_code"]:
                continue
            try:
                ws = written_file(prog, [line if line.endswith("\n") else line + "\n"], True, False)
            except AnalysisError:
                continue
            toks = ws[0].split() if ws else []
            exp = [want["type"], want["serial"], want["name"], want["res_name"]] + ([want["chain_id"]] if want["chain_id"] else []) + \
                  [want["res_seq"], want["x"], want["y"], want["z"], want["charge"], want["radius"]]
            names = ["type", "serial", "name", "res_name"] + (["chain_id"] if want["chain_id"] else []) + ["res_seq", "x", "y", "z", "charge", "radius"]
            if want["type"] == "HETATM" and want["serial"] > 9999 and toks and toks[0].startswith("HETATM") and toks[0] != "HETATM":
                toks = ["HETATM", toks[0][6:]] + toks[1:]  # record name and a five-digit serial share a token; readers split it off (C07.R9)
            if len(toks) == len(exp) - 1 and want["chain_id"] and len(str(want["res_seq"])) == 4:
                continue  # chain and a four-character residue number merge: listed finding R2|sep|chain_id+res_seq
            badt = {}
            if len(toks) != len(exp):
                badt["tokens"] = (toks, len(exp))
            else:
                for k, t, w in zip(names, toks, exp):
                    g = _int(t) if k in ("serial", "res_seq") else _flt(t) if k in tol else t
                    if differs(k, g, w):
                        badt[k] = (g, w)
            r.add(f"atom|{tag}|tokens", not badt, f"{(ws[0] if ws else '').rstrip()!r}: " + ("every field reads back as a token" if not badt else
                  f"read back by tokens (read, model): {badt}"), where)


def _int(txt):
    try:
        return int(txt)
    except ValueError:
        return None


def _flt(txt):
    try:
        return float(txt)
    except ValueError:
        return None
