"""C14 -- neighbour search returns every atom within range.

Decided statically: completeness of the 27-cell neighbourhood for every instantiated cell
size; the key function is a monotone step function with steps exactly one cell wide (finite
case analysis over sign x truncation classes); bucket-maintenance typestate (an atom must be
out of its bucket when it is moved or deleted and back in afterwards).
"""
from __future__ import annotations

import ast
import itertools

from ..core import AnalysisError, U, calls_in, enclosing_loops, iter_stmts, parent, try_fold, walk_no_defs

EPOCH_END = {
    "hydrogens/__init__.py::HydrogenRoutines.cleanup": "runs after optimize_hydrogens, the last user of the cell map in a run "
                                                       "(checked: last hydrogen_routines call in non_trivial)",
    "hydrogens/__init__.py::HydrogenRoutines.pka_switchstate": "unreachable legacy code",
}
SCOPE = ["hydrogens/structures.py", "hydrogens/optimize.py", "hydrogens/__init__.py", "debump.py", "cells.py"]


def check(prog, rep):
    rep.explanation = (
        "constant folding of the neighbourhood loops for every instantiated cell size; finite case analysis of the "
        "cell-key expression over (sign, truncated integer) classes; block-local typestate pairing of "
        "remove_cell/add_cell with coordinate stores and remove_atom in all optimisation/debump code"
    )
    rep.not_decided += ["behaviour of int() on non-finite coordinates"]
    cells = prog.cls("cells.py", "Cells")
    # ------------------------------------------------------------------ sizes instantiated
    sizes = set()
    for key, f in prog.funcs.items():
        for c in calls_in(f.node):
            if U(c.func) in ("cells.Cells", "Cells") and c.args:
                v = try_fold(c.args[0], prog.module_constants(f.module.rel) | prog.module_constants("config.py"))
                if v is None:
                    raise AnalysisError(f"Cells({U(c.args[0])}) in {key}: cell size does not fold to a constant")
                sizes.add(v)
    if not sizes:
        raise AnalysisError("no instantiation of cells.Cells found")

    # ------------------------------------------------------------------ R1
    r1 = rep.rule("R1", "the query enumerates exactly the 27 neighbouring cells", floor=3)
    gn = cells.methods["get_near_cells"].node
    wg = f"pdb2pqr/cells.py:{gn.lineno} (Cells.get_near_cells)"
    # the query and the methods of the class it calls on self
    qnodes = [gn]
    for c in calls_in(gn):
        if isinstance(c.func, ast.Attribute) and U(c.func.value) == "self" and c.func.attr in cells.methods:
            qnodes.append(cells.methods[c.func.attr].node)
    keyt = None
    for fn in qnodes:
        for n in ast.walk(fn):
            if isinstance(n, ast.Tuple) and len(n.elts) == 3 and all(isinstance(e, ast.BinOp) and isinstance(e.op, ast.Add) for e in n.elts):
                keyt = (fn, n)
    if keyt is None:
        raise AnalysisError("get_near_cells: the neighbour key (three sums base + offset) was not found: the query left the recognised shapes")
    kfn, ktup = keyt
    bases = [U(e.left) for e in ktup.elts]
    ovars = [U(e.right) for e in ktup.elts]
    # what each offset variable iterates over
    iters = {}
    for n in ast.walk(kfn):
        if isinstance(n, ast.For) and isinstance(n.target, ast.Name):
            iters[n.target.id] = n.iter
        if isinstance(n, ast.For) and isinstance(n.target, ast.Tuple) and isinstance(n.iter, ast.Call) and U(n.iter.func).endswith("product"):
            rp = next((try_fold(k.value) for k in n.iter.keywords if k.arg == "repeat"), None)
            for idx, e in enumerate(n.target.elts):
                iters[U(e)] = n.iter.args[idx] if rp is None and idx < len(n.iter.args) else n.iter.args[0]
        if isinstance(n, ast.comprehension) and isinstance(n.target, ast.Name):
            iters[n.target.id] = n.iter
    local_defs = {U(st.targets[0]): st.value for st in iter_stmts(kfn.body) if isinstance(st, ast.Assign) and isinstance(st.targets[0], ast.Name)}
    for s_ in sorted(sizes):
        offs = []
        for v in ovars:
            it = iters.get(v)
            if isinstance(it, ast.Name) and it.id in local_defs:
                it = local_defs[it.id]
            val = try_fold(it, {"size": s_}) if it is not None else None
            if isinstance(val, tuple):
                val = list(val)
            offs.append(val)
        ok = all(isinstance(o, list) and sorted(o) == [-s_, 0, s_] for o in offs)
        r1.add(f"offsets|size={s_}", ok, f"offsets per axis for cell size {s_}: {offs}; required [-{s_}, 0, {s_}] on each of three axes", wg)
    # bases are the three coordinates of the query cell, in order, and the offset variables are distinct
    base_src = {}
    for fn in qnodes:
        for st in iter_stmts(fn.body):
            if isinstance(st, ast.Assign) and isinstance(st.value, ast.Subscript) and isinstance(st.value.slice, ast.Constant) and isinstance(st.targets[0], ast.Name):
                base_src[st.targets[0].id] = (U(st.value.value), st.value.slice.value)
            if isinstance(st, ast.Assign) and isinstance(st.targets[0], ast.Tuple) and len(st.targets[0].elts) == 3 and isinstance(st.value, ast.Name):
                for idx, e in enumerate(st.targets[0].elts):
                    base_src[U(e)] = (U(st.value), idx)
    src_ok = [base_src.get(b, (None, None)) for b in bases]
    own = len(set(ovars)) == 3 and [i for _, i in src_ok] == [0, 1, 2] and len({c for c, _ in src_ok}) == 1
    r1.add("own-axis", own, f"neighbour key {[U(e) for e in ktup.elts]}: bases {src_ok}, three distinct offset variables {ovars}", wg)
    ac = cells.methods["add_cell"].node
    ktuple = [n for n in ast.walk(ac) if isinstance(n, ast.Assign) and isinstance(n.value, ast.Tuple) and len(n.value.elts) == 3]
    if not ktuple:
        raise AnalysisError("add_cell: the (x, y, z) key tuple was not found")
    selfskip = [n for fn in qnodes for n in ast.walk(fn) if isinstance(n, ast.If) and isinstance(n.body[0], ast.Continue)]
    rep.guarded(rule_model_queries, prog, rep, sorted(sizes))
    from . import shared as _sh
    rep.guarded(_sh.rule_refill_is_unconditional, prog, rep, "R6", "a function that fills the cell map from the atom list does so on every path (never a conditional refresh)")
    # the query must read the live cell map: no instance state is written by the query (no memoised neighbourhoods)
    writes = []
    for fn in qnodes:
        for n in ast.walk(fn):
            if isinstance(n, (ast.Attribute, ast.Subscript)) and isinstance(n.ctx, (ast.Store, ast.Del)) and U(n).startswith("self."):
                writes.append(f"{fn.name}: {U(n)}")
            if isinstance(n, ast.Call) and isinstance(n.func, ast.Attribute) and U(n.func.value).startswith("self.") \
                    and n.func.attr in ("append", "update", "setdefault", "add", "insert", "extend", "pop", "clear"):
                writes.append(f"{fn.name}: {U(n.func)}")
    r1.add("query-is-pure", not writes, "the query stores nothing on the cell-map object (results are computed from the live map at query time)"
           if not writes else f"the query writes instance state ({writes[:2]}): a memoised neighbourhood goes stale when atoms are added, moved or removed", wg)

    # ------------------------------------------------------------------ R3 key function
    r3 = rep.rule("R3", "the cell key is a monotone step function: cells at least one cell-size wide, adjacent keys one step apart", floor=2)
    wa = f"pdb2pqr/cells.py:{ac.lineno} (Cells.add_cell)"
    comps = [U(e) for e in ktuple[0].value.elts]
    for axis_i, axis in enumerate("xyz"):
        comp = ktuple[0].value.elts[axis_i]
        stmts, var, result = key_code(cells, ac, comp, axis)
        for s in sorted(sizes):
            classes = [(True, t) for t in range(-4 * s, 1)] + [(False, t) for t in range(0, 4 * s + 1)]
            keys = [_eval_key(stmts, var, result, neg, tval, s) for neg, tval in classes]
            mono = all(a <= b for a, b in zip(keys, keys[1:]))
            runs = [(k, len(list(grp))) for k, grp in itertools.groupby(keys)]
            inner = runs[1:-1]
            widths_ok = all(n >= s for _, n in inner) and all(k % s == 0 for k, _ in runs) and \
                all(b[0] - a[0] == s for a, b in zip(runs, runs[1:]))
            r3.add(f"key|{axis}:size={s}", mono and widths_ok,
                   f"over the unit classes of the real line the key of {axis} takes values {[k for k, _ in runs][:5]}... "
                   f"{'monotone' if mono else 'NOT monotone'}, run lengths {sorted(set(n for _, n in inner))} (required >= {s}), key steps "
                   f"{sorted(set(b[0] - a[0] for a, b in zip(runs, runs[1:])))} (required {s}); two points closer than the cell size therefore "
                   "lie in the same or adjacent cells", wa)

    rule_query_radius(prog, rep)
    # ------------------------------------------------------------------ R2 typestate
    r2 = rep.rule("R2", "an atom is out of its bucket when moved or deleted, and back in afterwards", floor=10)
    n_sites = 0
    for rel in SCOPE:
        for key, f in sorted(prog.funcs.items()):
            if f.module.rel != rel:
                continue
            n_sites += typestate(prog, f, r2)
    r2.info["sites_examined"] = n_sites
    nt = prog.func("main.py", "non_trivial").node
    hr_calls = [U(c.func) for c in sorted(calls_in(nt), key=lambda c: (c.lineno, c.col_offset)) if U(c.func).startswith(("hydrogen_routines.", "debumper."))]
    r2.add("epoch-end|cleanup", bool(hr_calls) and hr_calls[-1] == "hydrogen_routines.cleanup",
           f"calls on the optimisation/debump objects in non_trivial, in order: {hr_calls}; cleanup must be the last",
           f"pdb2pqr/main.py:{nt.lineno} (non_trivial)")


def rule_model_queries(prog, rep, sizes):
    """add_cell / remove_cell / get_near_cells are evaluated on a model set of atoms (coordinates on and around cell
    boundaries, negative, zero, far out), for every cell size in use, before and after a series of moves: every pair closer
    than the cell size must be found from both sides, the query atom itself never."""
    import math
    from ..guards import Flow, Obj
    from ..objinterp import ObjRunner
    r = rep.rule("R5", "model atom set: every pair closer than the cell size is returned by the query (both directions, after moves too)", floor=2)
    where = "pdb2pqr/cells.py (Cells.add_cell / remove_cell / get_near_cells)"
    for size in sizes:
        grid = [-2.5, -2.0, -1.0, -0.999, -0.5, -0.001, 0.0, 0.001, 0.5, 0.999, 1.0, 1.5, 2.0, 2.49]
        pts = []
        state = 12345
        for n_ in range(70):
            c = []
            for _ in range(3):
                state = (1103515245 * state + 12345) % (2 ** 31)
                c.append(grid[state % len(grid)] * size + (0.0 if n_ % 3 else ((state >> 8) % 7 - 3) * 0.13))
            pts.append(c)
        pts += [[1000.0 * size, -1000.0 * size, 0.0], [1000.0 * size + 0.4 * size, -1000.0 * size, 0.3 * size]]
        # the atoms belong to residues of every kind the pipeline keeps (amino acid, water, nucleotide, ligand, unknown hetero group)
        kinds = [Obj({"__class__": c_, "name": n_}) for c_, n_ in (("ALA", "ALA"), ("WAT", "HOH"), ("ADE", "A"), ("LIG", "LIG"), ("Residue", "SO4"))]
        atoms = [Obj({"__class__": "Atom", "name": f"A{i}", "x": p_[0], "y": p_[1], "z": p_[2], "cell": None, "residue": kinds[i % len(kinds)]})
                 for i, p_ in enumerate(pts)]
        run = ObjRunner(prog, "cells.py")
        try:
            cm = run.new("Cells", size)
            run.call(cm, "assign_cells", Obj({"__class__": "Biomolecule", "atoms": list(atoms)}))

            def missing():
                out, selfhits = [], 0
                res = {a["name"]: run.call(cm, "get_near_cells", a) for a in atoms}
                for a in atoms:
                    got = res[a["name"]]
                    if any(x is a for x in got):
                        selfhits += 1
                    for b in atoms:
                        if b is not a and math.dist((a["x"], a["y"], a["z"]), (b["x"], b["y"], b["z"])) < size and not any(x is b for x in got):
                            out.append((a["name"], b["name"]))
                return out, selfhits

            m0, s0 = missing()
            # a series of moves across cell boundaries and the zero planes, bracketed the way the movers do it
            for k, a in enumerate(atoms[:25]):
                run.call(cm, "remove_cell", a)
                a["x"], a["y"], a["z"] = -a["y"] + 0.37 * k % size, a["z"] - 0.5 * size, a["x"] * -0.5
                run.call(cm, "add_cell", a)
            m1, s1 = missing()
            # moves that stay inside the cell, twice in a row for the same atom, including atoms that are alone in their cell
            for a in atoms[-2:] + atoms[30:40]:
                for _ in range(2):
                    run.call(cm, "remove_cell", a)
                    a["x"], a["y"], a["z"] = a["x"] + 0.001 * size, a["y"], a["z"]
                    run.call(cm, "add_cell", a)
            m2, s2 = missing()
            m1, s1 = m1 + m2, s1 + s2
        except Flow as fl:
            r.bad(f"model|size={size}|runs", f"the cell map stops with {fl.value} on the model atom set", where)
            continue
        n_pairs = sum(1 for i, a in enumerate(atoms) for b in atoms[i + 1:] if math.dist((a["x"], a["y"], a["z"]), (b["x"], b["y"], b["z"])) < size)
        r.add(f"model|size={size}", not m0 and not m1 and not s0 and not s1,
              f"cell size {size}: {len(atoms)} atoms, {n_pairs} pairs within range after the moves" +
              ("; all found from both sides, no atom returns itself" if not (m0 or m1 or s0 or s1) else
               f"; NOT returned: {(m0 + m1)[:4]} ({len(m0)} before, {len(m1)} after the moves); atoms returning themselves: {s0 + s1}"), where)
    r.info["methods_interpreted"] = sorted(set(run.calls))


def _upper(expr, fn, consts, depth=0):
    """Upper bound of a cutoff expression built from constants (sums, conditional choices, locals bound to such), or None."""
    v = try_fold(expr, consts)
    if isinstance(v, (int, float)) and not isinstance(v, bool):
        return float(v)
    if depth > 4:
        return None
    if isinstance(expr, ast.BinOp) and isinstance(expr.op, ast.Add):
        a, b = _upper(expr.left, fn, consts, depth + 1), _upper(expr.right, fn, consts, depth + 1)
        return a + b if a is not None and b is not None else None
    if isinstance(expr, ast.IfExp):
        a, b = _upper(expr.body, fn, consts, depth + 1), _upper(expr.orelse, fn, consts, depth + 1)
        return max(a, b) if a is not None and b is not None else None
    if isinstance(expr, ast.Name):
        defs = [s_.value for s_ in iter_stmts(fn.body) if isinstance(s_, ast.Assign) and any(isinstance(t_, ast.Name) and t_.id == expr.id for t_ in s_.targets)]
        if not defs:
            return None
        ub = [_upper(d, fn, consts, depth + 1) for d in defs]
        return max(ub) if all(u is not None for u in ub) else None
    return None


def rule_query_radius(prog, rep):
    """A fixed-radius filter applied to the result of a neighbour query only sees pairs in adjacent cells: the radius must
    not exceed the size of the cells the query runs on."""
    r = rep.rule("R4", "every fixed distance cutoff applied to neighbour-query results is at most the cell size in use", floor=2)
    consts = dict(prog.module_constants("config.py"))
    size_of = {}  # module -> smallest cell size its queries can run on
    for key, f in prog.funcs.items():
        for c in calls_in(f.node):
            if U(c.func) in ("cells.Cells", "Cells") and c.args:
                v = try_fold(c.args[0], prog.module_constants(f.module.rel) | consts)
                if not isinstance(v, (int, float)):
                    raise AnalysisError(f"Cells({U(c.args[0])}) in {key}: cell size does not fold to a constant")
                size_of.setdefault(f.module.rel, []).append(v)
    if not size_of:
        raise AnalysisError("no instantiation of cells.Cells found")
    all_sizes = [v for vs in size_of.values() for v in vs]
    hyd_sizes = [v for rel, vs in size_of.items() if rel.startswith("hydrogens/") for v in vs] or all_sizes
    n = 0
    for key, f in sorted(prog.funcs.items()):
        if f.module.rel not in SCOPE or not any(isinstance(c.func, ast.Attribute) and c.func.attr == "get_near_cells" for c in calls_in(f.node)):
            continue
        # the debumper's queries run on its own cells and on the optimisation's larger ones: the smaller size is the bound
        size = min(hyd_sizes) if f.module.rel.startswith("hydrogens/") else min(all_sizes)
        fconsts = consts | prog.module_constants(f.module.rel)
        dvars = {U(s_.targets[0]) for s_ in iter_stmts(f.node.body) if isinstance(s_, ast.Assign) and isinstance(s_.value, ast.Call)
                 and U(s_.value.func).split(".")[-1] == "distance"}
        for cmpn in [x for x in walk_no_defs(f.node) if isinstance(x, ast.Compare) and len(x.ops) == 1]:
            left, right, op = cmpn.left, cmpn.comparators[0], cmpn.ops[0]
            if U(left) in dvars and isinstance(op, (ast.Lt, ast.LtE)):
                bound = _upper(right, f.node, fconsts)
            elif U(right) in dvars and isinstance(op, (ast.Gt, ast.GtE)):
                bound = _upper(left, f.node, fconsts)
            else:
                continue
            if bound is None:
                continue  # a running minimum ("closest neighbour"), not a fixed radius
            n += 1
            r.add(f"radius|{key}:{U(cmpn)[:40]}", bound <= size,
                  f"{U(cmpn)}: cutoff at most {bound:g} A on a query over cells of {size:g} A" +
                  ("" if bound <= size else " -- pairs between the cell size and the cutoff that fall in non-adjacent cells are never returned, so the "
                   "filtered result is not the brute-force result"), f"pdb2pqr/{f.module.rel}:{cmpn.lineno} ({f.qual})")
    r.info["filters"] = n


def key_code(cells, ac, comp, axis):
    """(statements, coordinate variable, result variable or None) computing one key component from atom.<axis>.

    Recognised: `v = atom.<axis>; v = EXPR(v)` inline in add_cell, or `self.helper(atom.<axis>)` with a straight-line helper
    (assignments, augmented assignments, sign-test ifs, returns)."""
    def helper(call):
        """A method of the class or a function of its module that receives atom.<axis> (and possibly the cell size)."""
        if not isinstance(call, ast.Call):
            return None
        h = None
        if isinstance(call.func, ast.Attribute) and U(call.func.value) in ("self", "cls") and call.func.attr in cells.methods:
            h = cells.methods[call.func.attr].node
            params = [a.arg for a in h.args.args if a.arg not in ("self", "cls")]
            if any(U(d) == "staticmethod" for d in h.decorator_list):
                params = [a.arg for a in h.args.args]
        elif isinstance(call.func, ast.Name):
            for st in cells.module.tree.body:
                if isinstance(st, ast.FunctionDef) and st.name == call.func.id:
                    h = st
                    params = [a.arg for a in h.args.args]
        if h is None or len(call.args) != len(params) or call.keywords:
            return None
        coord = [p_ for p_, a in zip(params, call.args) if U(a) == f"atom.{axis}"]
        others = [(p_, a) for p_, a in zip(params, call.args) if U(a) != f"atom.{axis}"]
        if len(coord) != 1 or not all(U(a) in ("size", "self.cellsize") for _, a in others):
            return None
        size_alias.update(p_ for p_, _ in others)
        body = [st for st in h.body if not (isinstance(st, ast.Expr) and isinstance(st.value, ast.Constant))]
        return body, coord[0], None

    size_alias = SIZE_ALIASES
    size_alias.clear()

    got = helper(comp)
    if got:
        return got
    if isinstance(comp, ast.Name):
        assigns = [st for st in ac.body if isinstance(st, ast.Assign) and U(st.targets[0]) == comp.id]
        if len(assigns) == 1:
            got = helper(assigns[0].value)
            if got:
                return got
        if len(assigns) == 2 and U(assigns[0].value) == f"atom.{axis}":
            return [assigns[1]], comp.id, comp.id
    raise AnalysisError(f"add_cell: the computation of the {axis} key component left the recognised shapes ({U(comp)[:50]})")


SIZE_ALIASES = set()  # parameter names of a key helper that stand for the cell size (filled by key_code)


class _Ret(Exception):
    def __init__(self, v):
        self.v = v


def _eval_key(stmts, var, result, neg, tval, size):
    """Evaluate straight-line key code on the class (sign, int(v) = tval): integer arithmetic only; the coordinate itself is
    never a value (it may appear only under int() and in sign tests)."""
    env = {"size": size}
    for alias in SIZE_ALIASES:
        env[alias] = size

    def ev(n):
        if isinstance(n, ast.Constant):
            return n.value
        if isinstance(n, ast.Attribute) and U(n) == "self.cellsize":
            return size
        if isinstance(n, ast.Name):
            if n.id == var and var not in env:
                raise AnalysisError("cell key: the coordinate is used as a number outside int()/sign test")
            if n.id in env:
                return env[n.id]
            raise AnalysisError(f"cell key: free name {n.id}")
        if isinstance(n, ast.Call) and U(n.func) == "int" and len(n.args) == 1 and U(n.args[0]) == var and var not in env:
            return tval
        if isinstance(n, ast.Call) and U(n.func) == "int" and len(n.args) == 1:
            return int(ev(n.args[0]))
        if isinstance(n, ast.Compare) and len(n.ops) == 1:
            t = U(n)
            if var not in env and t in (f"{var} < 0", f"0 > {var}", f"{var} < 0.0"):
                return neg
            if var not in env and t in (f"{var} >= 0", f"0 <= {var}", f"{var} >= 0.0"):
                return not neg
            a, b = ev(n.left), ev(n.comparators[0])
            return {ast.Lt: a < b, ast.LtE: a <= b, ast.Gt: a > b, ast.GtE: a >= b, ast.Eq: a == b, ast.NotEq: a != b}[type(n.ops[0])]
        if isinstance(n, ast.IfExp):
            return ev(n.body) if ev(n.test) else ev(n.orelse)
        if isinstance(n, ast.BinOp):
            a, b = ev(n.left), ev(n.right)
            ops = {ast.Add: lambda: a + b, ast.Sub: lambda: a - b, ast.Mult: lambda: a * b, ast.FloorDiv: lambda: a // b, ast.Mod: lambda: a % b}
            if type(n.op) in ops:
                return ops[type(n.op)]()
        if isinstance(n, ast.UnaryOp) and isinstance(n.op, ast.USub):
            return -ev(n.operand)
        if isinstance(n, ast.UnaryOp) and isinstance(n.op, ast.Not):
            return not ev(n.operand)
        raise AnalysisError(f"cell key: expression outside the recognised arithmetic: {U(n)[:60]}")

    def run(block):
        for st in block:
            if isinstance(st, ast.Assign) and isinstance(st.targets[0], ast.Name):
                v = ev(st.value)
                env[st.targets[0].id] = v
            elif isinstance(st, ast.AugAssign) and isinstance(st.target, ast.Name):
                cur = ev(st.target)
                v = ev(st.value)
                env[st.target.id] = {ast.Add: cur + v, ast.Sub: cur - v, ast.Mult: cur * v, ast.FloorDiv: cur // v if v else 0}[type(st.op)]
            elif isinstance(st, ast.If):
                run(st.body if ev(st.test) else st.orelse)
            elif isinstance(st, ast.Return):
                raise _Ret(ev(st.value))
            elif isinstance(st, ast.Pass):
                continue
            else:
                raise AnalysisError(f"cell key: statement {type(st).__name__} outside the recognised straight-line subset")

    try:
        run(stmts)
    except _Ret as r:
        return r.v
    if result is not None and result in env:
        return env[result]
    raise AnalysisError("cell key: no result computed")


# ------------------------------------------------------------------------------------------ typestate
def _block(stmt):
    p = parent(stmt)
    for field in ("body", "orelse", "finalbody"):
        blk = getattr(p, field, None)
        if isinstance(blk, list) and stmt in blk:
            return blk
    if isinstance(p, ast.Try):
        for h in p.handlers:
            if stmt in h.body:
                return h.body
    return None


def _stmt(node):
    while node is not None and not isinstance(node, ast.stmt):
        node = parent(node)
    return node


def _path_before(stmt, fn):
    """Statements that execute before `stmt` on the way from the function entry (enclosing blocks, textual order)."""
    out = []
    cur = stmt
    while cur is not None and cur is not fn:
        blk = _block(cur)
        if blk is not None:
            out = blk[: blk.index(cur)] + out
        cur = parent(cur)
        while cur is not None and not isinstance(cur, ast.stmt):
            cur = parent(cur)
    return out


def _cell_calls(stmts, kind):
    """[(arg text, node)] of cells.<kind>(arg) calls directly in these statements (not inside nested defs)."""
    out = []

    def visit(stmts):
        from ..core import terminates
        for s in stmts:
            if isinstance(s, ast.If):
                # a branch that always leaves (return/continue/raise) is not on the path to later statements
                if not terminates(s.body):
                    visit(s.body)
                if not terminates(s.orelse):
                    visit(s.orelse)
                continue
            if isinstance(s, (ast.For, ast.While)):
                visit(s.body)
                continue
            if isinstance(s, ast.Try):
                visit(s.body)
                continue
            for c in calls_in(s):
                if isinstance(c.func, ast.Attribute) and c.func.attr == kind and "cells" in U(c.func.value) and c.args:
                    out.append((U(c.args[0]), c))

    visit(stmts)
    return out


def typestate(prog, f, r2):
    fn = f.node
    n = 0
    src = f"pdb2pqr/{f.module.rel}"
    # name aliases: N = V.name
    name_alias = {}
    for s in iter_stmts(fn.body):
        if isinstance(s, ast.Assign) and isinstance(s.targets[0], ast.Name) and isinstance(s.value, ast.Attribute) and s.value.attr == "name":
            name_alias[s.targets[0].id] = U(s.value.value)
    getatom_alias = {}  # "recv.get_atom(N)" -> variable
    created_names = set()
    for s in iter_stmts(fn.body):
        if isinstance(s, ast.Assign) and isinstance(s.targets[0], ast.Name) and isinstance(s.value, ast.Call) \
                and isinstance(s.value.func, ast.Attribute) and s.value.func.attr == "get_atom" and s.value.args:
            getatom_alias[U(s.value)] = s.targets[0].id
        for c in calls_in(s):
            if isinstance(c.func, ast.Attribute) and (c.func.attr == "create_atom" or c.func.attr.startswith("make_")) and c.args:
                for a in c.args:
                    created_names.add(U(a))
    params = [a.arg for a in fn.args.args]
    # ---------------- P1: remove_atom
    for c in calls_in(fn):
        if not (isinstance(c.func, ast.Attribute) and c.func.attr == "remove_atom" and c.args):
            continue
        if f.key in EPOCH_END:
            r2.ok(f"delete|{f.key}:{U(c)}", f"reviewed: {EPOCH_END[f.key]}", f"{src}:{c.lineno} ({f.qual})")
            continue
        n += 1
        st = _stmt(c)
        recv = U(c.func.value)
        nexpr = U(c.args[0])
        denot = {f"{recv}.get_atom({nexpr})"}
        if nexpr.endswith(".name"):
            denot.add(nexpr[: -len(".name")])
        if nexpr in name_alias:
            denot.add(name_alias[nexpr])
        for d in list(denot):
            if d in getatom_alias:
                denot.add(getatom_alias[d])
        before = _path_before(st, fn)
        blk = _block(st)
        same_block_before = blk[: blk.index(st)] if blk else []
        removed = {a for a, _ in _cell_calls(same_block_before, "remove_cell")}
        added_before = {a for a, _ in _cell_calls(before, "add_cell")}
        where = f"{src}:{c.lineno} ({f.qual})"
        key = f"delete|{f.key}:{U(c)}"
        if denot & removed:
            r2.ok(key, f"remove_cell({sorted(denot & removed)[0]}) precedes the deletion in the same block", where)
            continue
        # locally Out: a parameter/creation of this function that has not been bucketed on this path
        local_out = False
        for v in denot:
            if (v in params and v.startswith("new")) and not (denot & added_before):
                local_out = True
        if nexpr in created_names and not (denot & added_before):
            local_out = True  # created in this function and not bucketed on this path
        if local_out:
            r2.ok(key, "the atom was created by this call tree and has not been bucketed on this path", where)
            continue
        r2.bad(key, f"atom {sorted(denot)[0]} is deleted while (possibly) still in its bucket: no remove_cell of it precedes "
               "the deletion in this block, so a phantom entry stays visible to later neighbour queries", where)
    # ---------------- P2: coordinate stores
    groups = {}
    for s in iter_stmts(fn.body):
        if isinstance(s, ast.Assign) and isinstance(s.targets[0], ast.Attribute) and s.targets[0].attr in ("x", "y", "z"):
            v = U(s.targets[0].value)
            blk = _block(s)
            groups.setdefault((v, id(blk)), []).append(s)
    for (v, _), stores in groups.items():
        if v in ("self", "newatom") and fn.name in ("create_atom", "__init__"):
            continue
        if f.key in EPOCH_END:
            continue
        n += 1
        first, last = stores[0], stores[-1]
        blk = _block(first)
        i0, i1 = blk.index(first), blk.index(last)
        before = _path_before(first, fn)
        after_same = blk[i1 + 1:]
        # statements after the block on the same path (enclosing blocks) also count for the re-add
        after_all = list(after_same)
        cur = parent(first)
        while cur is not None and cur is not fn:
            if isinstance(cur, ast.stmt):
                b2 = _block(cur)
                if b2 is not None and not isinstance(cur, (ast.For, ast.While)):
                    after_all += b2[b2.index(cur) + 1:]
            cur = parent(cur)
        adds_before = [a for a, _ in _cell_calls(before, "add_cell")]
        rems_before_block = [a for a, _ in _cell_calls(blk[:i0], "remove_cell")]
        adds_after = [a for a, _ in _cell_calls(after_all, "add_cell")]
        where = f"{src}:{first.lineno} ({f.qual})"
        key = f"move|{f.key}:{v}:{'/'.join(U(s.value)[:12] for s in stores[:1])}"
        was_in = v in adds_before or _bucketed_param(f, v)
        problems = []
        if was_in and v not in rems_before_block:
            wrong = [a for a in rems_before_block if a != v]
            problems.append(f"{v} is in its bucket when its coordinates are overwritten"
                            + (f" (the bracket removes {wrong[0]} instead)" if wrong else "") + ": its cell key goes stale")
        if not _ends_in(after_all, v, name_alias, getatom_alias) and not _returns_out(f, v):
            wrong = [a for a in adds_after if a != v]
            problems.append(f"{v} is not re-bucketed after the move" + (f" (add_cell is applied to {wrong[0]})" if wrong else ""))
        if problems:
            r2.bad(key, "; ".join(problems), where)
        else:
            r2.ok(key, f"stores on {v} are bracketed: out before (or never in), add_cell({v}) after", where)
    return n


def _ends_in(stmts, v, name_alias, getatom_alias):
    """On every path through `stmts` (the code after a move) the atom v is re-bucketed or deleted."""
    from ..core import terminates
    names_of_v = {f"{v}.name"} | {n for n, var in name_alias.items() if var == v} | \
        {k.split("get_atom(")[1][:-1] for k, var in getatom_alias.items() if var == v}
    for i, s in enumerate(stmts):
        if isinstance(s, ast.If):
            rest = stmts[i + 1:]
            res = []
            for branch in (s.body, s.orelse):
                if terminates(branch):
                    res.append(_ends_in(branch, v, name_alias, getatom_alias))
                else:
                    res.append(_ends_in(list(branch) + list(rest), v, name_alias, getatom_alias))
            return all(res)
        for c in calls_in(s):
            if isinstance(c.func, ast.Attribute) and c.func.attr == "add_cell" and c.args and U(c.args[0]) == v:
                return True
            if isinstance(c.func, ast.Attribute) and c.func.attr == "remove_atom" and c.args and U(c.args[0]) in names_of_v:
                return True
    return False


def _bucketed_param(f, v):
    """Atoms handed to the rigid movers are bucketed (they are residue atoms of an assigned cell map)."""
    if f.key in ("debump.py::Debump.set_dihedral_angle",) and v == "atom":
        return True
    # a method of the cell map itself that moves an atom it is handed: the atom is one of the map's atoms
    return f.module.rel == "cells.py" and f.cls is not None and v in [a.arg for a in f.node.args.args[1:]]


def _returns_out(f, v):
    """rotate_tetrahedral moves atoms of the caller; bucket maintenance for it is judged at the call sites (scans that
    fold to a full turn are neutral; see C05.R4)."""
    return f.key == "residue.py::Residue.rotate_tetrahedral"
