"""C10 -- mmCIF and PDB encodings of one structure give the same result.

Decided statically: the fixed-column record cif.atom_site synthesises from atom_site items has,
on every path and in all sibling copies, each field exactly where pdb.ATOM/HETATM slice it;
missing-value tests accept every spelling of the marker; no value is evaluated and discarded;
each PDB column is fed from the item the wwPDB correspondence assigns; the format flag only
influences header/TER/trailer output.
"""
from __future__ import annotations

import ast

from ..core import AnalysisError, U, calls_in, guards_of, iter_stmts, parent, walk_no_defs
from ..layout import AStr, C, Layout, N, S, Src, State, _SrcNode, describe, offsets
from .c07 import WWPDB, record_slices

MARKERS = [C("."), C("?"), C(""), C(None)]


def present(label, lo, hi):
    return S(label, lo, hi, chars="nonmarker")


DOMAINS = {
    "id": [N("atom id 1..99999", [1, 99999])],
    "label_atom_id": [S("atom name 1-4", 1, 4)], "auth_atom_id": [S("atom name 1-4", 1, 4)],
    "label_alt_id": MARKERS + [present("altLoc", 1, 1)],
    "label_comp_id": [S("residue name 1-3", 1, 3)], "auth_comp_id": [S("residue name 1-3", 1, 3)],
    "label_asym_id": [S("chain 1", 1, 1)], "auth_asym_id": [S("chain 1", 1, 1)],
    "auth_seq_id": [N("resSeq -999..9999", [-999, 1, 9999])], "label_seq_id": [N("resSeq", [1, 9999])],
    "pdbx_PDB_ins_code": MARKERS + [present("iCode", 1, 1)],
    "Cartn_x": [S("coordinate text 1-8", 1, 8)], "Cartn_y": [S("coordinate text 1-8", 1, 8)],
    "Cartn_z": [S("coordinate text 1-8", 1, 8)],
    "occupancy": [S("occupancy text 1-6", 1, 6)], "B_iso_or_equiv": [S("B text 1-6", 1, 6)],
    "type_symbol": [S("element 1-2", 1, 2)],
    "pdbx_formal_charge": MARKERS + [present("formal charge 1-2", 1, 2)],
    "pdbx_PDB_model_num": [N("model", [1, 20])],
}
# wwPDB PDB-column <- mmCIF item correspondence (label_* accepted where it equals auth_* for standard residues)
ITEM_OF = {
    "serial": {"id"}, "name": {"auth_atom_id", "label_atom_id"}, "alt_loc": {"label_alt_id"},
    "res_name": {"auth_comp_id", "label_comp_id"}, "chain_id": {"auth_asym_id"}, "res_seq": {"auth_seq_id"},
    "ins_code": {"pdbx_PDB_ins_code"}, "x": {"Cartn_x"}, "y": {"Cartn_y"}, "z": {"Cartn_z"},
    "occupancy": {"occupancy"}, "temp_factor": {"B_iso_or_equiv"}, "element": {"type_symbol"},
    "charge": {"pdbx_formal_charge"},
}
FIELD_OF_ITEM = {}
for _f, _items in ITEM_OF.items():
    for _i in _items:
        FIELD_OF_ITEM[_i] = _f
FIELD_OF_ITEM["label_asym_id"] = "chain_id"  # wrong item for the chain column, but it is what feeds it
FIELD_OF_ITEM["label_seq_id"] = "res_seq"


def source_of(node):
    if isinstance(node, _SrcNode):
        return node.key
    if isinstance(node, ast.Call) and isinstance(node.func, ast.Attribute) and node.func.attr == "get_value" \
            and node.args and isinstance(node.args[0], ast.Constant):
        return node.args[0].value
    return None


def find_copies(fn):
    """The try-blocks that build a line and hand it to pdb.ATOM / pdb.HETATM."""
    copies = []
    for st in iter_stmts(fn.body):
        if isinstance(st, ast.Try):
            for c in calls_in(ast.Module(body=st.body, type_ignores=[])):
                if U(c.func) in ("pdb.ATOM", "pdb.HETATM"):
                    copies.append((st, c))
    return copies


def analyse_copy(prog, trynode, ctor_call, consts, domains=None):
    rec = U(ctor_call.func).split(".")[1]
    doms = dict(domains or DOMAINS)
    doms["group_PDB"] = [C(rec)]
    discarded = []

    def on_expr(eng, st, stmt):
        if isinstance(stmt.value, ast.Call) and source_of(stmt.value) is not None:
            discarded.append((source_of(stmt.value), stmt.lineno))

    helpers = {n.name: n for n in prog.module("cif.py").tree.body if isinstance(n, ast.FunctionDef) and len(n.body) <= 14
               and not (n.args.vararg or n.args.kwarg or n.args.kwonlyargs or n.args.defaults)
               and not any(isinstance(x, (ast.For, ast.While, ast.With)) for x in ast.walk(n))}
    eng = Layout(doms, source_of, consts=consts, helpers=helpers)
    linevar = U(ctor_call.args[0])
    # statements up to the constructor call
    body = []
    for s in trynode.body:
        if ctor_call in list(ast.walk(s)):
            break
        body.append(s)
    finals = eng.run(body, on_expr=on_expr)
    out = []
    for f in finals:
        v = f.env.get(linevar)
        if not isinstance(v, AStr):
            raise AnalysisError(f"cif.atom_site: line variable {linevar!r} is not a string layout at line {ctor_call.lineno}: {v!r}")
        out.append((f, v))
    return rec, out, discarded


def check(prog, rep):
    rep.explanation = (
        "string-layout abstract interpretation of the record assembly in cif.atom_site (all sibling copies, all "
        "paths over missing/present markers and name lengths) compared with the column slices of pdb.ATOM/HETATM; "
        "item-mapping table; flag-use classification of is_cif"
    )
    rep.exhaustive = True
    rep.assumptions += ["values expressible in both formats: ids <= 99999, names <= 4, residue names <= 3, one-character "
                        "chain/altLoc/iCode, coordinates <= 8 characters",
                        "label_atom_id/label_comp_id equal their auth_* counterparts for standard residues"]
    rep.not_decided += ["semantic equality of everything downstream (same pipeline once records agree)",
                        "categories other than atom_site", "behaviour across versions of the mmCIF dependency beyond "
                        "the marker-spelling rule"]
    fn = prog.func("cif.py", "atom_site").node
    consts = prog.module_constants("cif.py")
    copies = find_copies(fn)
    if len(copies) < 1:
        raise AnalysisError("cif.atom_site: no record-assembly block (try ... pdb.ATOM(line)) found")
    reader = {}
    for name in ("ATOM", "HETATM"):
        try:
            from .c07 import probed_columns
            reader[name] = {k: v[0] for k, v in probed_columns(prog, name).items()}
        except AnalysisError:
            reader[name] = {k: v[0] for k, v in record_slices(prog.func("pdb.py", f"{name}.__init__").node).items()}

    r1 = rep.rule("R1", "every synthesised field sits exactly in the columns the PDB record classes read", floor=10)
    r2 = rep.rule("R2", "sibling copies of the assembler produce identical layouts", floor=1)
    r3 = rep.rule("R3", "no value is evaluated and discarded; all paths have one fixed width", floor=1)
    r4 = rep.rule("R4", "missing-value tests accept every spelling of the marker ('.', '?', '', None)", floor=3)
    r5 = rep.rule("R5", "each PDB column is fed from the atom_site item the wwPDB correspondence assigns", floor=10)

    signatures = {}
    n_paths = 0
    for idx, (trynode, ctor) in enumerate(copies):
        rec, results, discarded = analyse_copy(prog, trynode, ctor, consts)
        where = f"pdb2pqr/cif.py:{trynode.lineno} (atom_site, copy {idx}: {rec})"
        n_paths += len(results)
        # ---- R3
        for item, ln in sorted(set(discarded)):
            r3.bad(f"discarded|copy{idx}:{item}", f"value of {item} is evaluated and thrown away (expression statement)",
                   f"pdb2pqr/cif.py:{ln} (atom_site)")
        widths = {v.width() for _, v in results}
        fixed = all(lo == hi for lo, hi in widths) and len(widths) == 1
        r3.add(f"fixed-width|copy{idx}", fixed, f"line width over {len(results)} paths: {sorted(widths)}", where)
        # ---- R1 / R4 / R5 per path, aggregated per field
        field_ok = {}
        field_detail = {}
        fed_from = {}
        marker_bad = {}
        for st, v in results:
            offs = offsets(v)
            if any(a != b or c != d for _, a, b, c, d in offs):
                continue
            for seg, a, _, c, _ in offs:
                if seg.kind == "fld" and seg.src in FIELD_OF_ITEM and not seg.blank_content:
                    f = FIELD_OF_ITEM[seg.src]
                    want = reader[rec].get(f)
                    fed_from.setdefault(f, set()).add(seg.src)
                    ok = want is not None and want[0] <= a and c <= want[1]
                    field_ok[f] = field_ok.get(f, True) and ok
                    if not ok or f not in field_detail:
                        field_detail[f] = f"{seg.src} written to [{a}:{c}], {rec} reads {f} from {list(want) if want else '?'}"
                elif seg.kind == "lit" and seg.text.strip():
                    # non-blank literal: must be the record name, or a marker spelling leaking into a column
                    if a == 0 and seg.text.strip() == rec:
                        continue
                    for f, (lo, hi) in reader[rec].items():
                        if lo <= a < hi:
                            marker_bad.setdefault(f, set()).add(seg.text)
            # every reader column outside the fields must be blank: covered by containment + fixed offsets
            for key, case in st.refine.items():
                if key in FIELD_OF_ITEM and case.concrete and case.value in (".", "?", "", None):
                    f = FIELD_OF_ITEM[key]
                    lo, hi = reader[rec][f]
                    for seg, a, _, c, _ in offs:
                        if a < hi and c > lo and not (seg.kind == "lit" and not seg.text.strip()) and not seg.blank_content \
                                and not (seg.kind == "fld" and seg.src == "<pad>"):
                            if seg.kind == "fld" and FIELD_OF_ITEM.get(seg.src) != f:
                                continue
                            marker_bad.setdefault(f, set()).add(repr(case.value))
            for ev in st.events:
                if ev[0] == "none-concat":
                    marker_bad.setdefault("?", set()).add("None concatenated")
        if not fixed:
            continue
        for f in WWPDB:
            if f == "seg_id":
                continue
            if f in field_ok:
                r1.add(f"layout|copy{idx}:{f}", field_ok[f], field_detail[f], where)
        for f, items in ITEM_OF.items():
            got = fed_from.get(f, set())
            if not got:
                r5.bad(f"item|copy{idx}:{f}", f"PDB column {f} has no atom_site source (wwPDB: {sorted(items)})", where)
            else:
                r5.add(f"item|copy{idx}:{f}", got <= items, f"PDB column {f} is fed from {sorted(got)}; wwPDB correspondence: "
                       f"{sorted(items)}", where)
        for key in ("label_alt_id", "pdbx_PDB_ins_code", "pdbx_formal_charge"):
            f = FIELD_OF_ITEM[key]
            bad = marker_bad.get(f, set())
            r4.add(f"marker|copy{idx}:{key}", not bad,
                   f"when {key} is missing the {f} column must be blank; "
                   + (f"spelling(s) {sorted(bad)} reach the column or shift it" if bad else "all four spellings give a blank"),
                   where)
        signatures[idx] = sorted(describe(v).replace(rec, "<REC>") for _, v in results)
    rep.analysed["cif_copies"] = len(copies)
    rep.analysed["cif_paths"] = n_paths
    base_idx = min(signatures) if signatures else None
    base = signatures.get(base_idx)
    for idx in range(len(copies)):
        if idx not in signatures:
            r2.bad(f"sibling|copy{idx}", f"copy {idx} has no fixed layout and cannot equal its siblings",
                   f"pdb2pqr/cif.py:{copies[idx][0].lineno} (atom_site)")
    for idx, sig in signatures.items():
        if idx == base_idx:
            continue
        # HETATM needs no pad after the 6-character record name; compare field layouts only
        r2.add(f"sibling|copy{base_idx}~copy{idx}", _strip_rec(sig) == _strip_rec(base),
               f"copy {idx} has {len(sig)} path layouts; {'identical to' if _strip_rec(sig) == _strip_rec(base) else 'DIFFERENT from'} copy {base_idx}",
               f"pdb2pqr/cif.py:{copies[idx][0].lineno} (atom_site)")
    if len(copies) == 1:
        r2.ok("sibling|single-assembler", "one assembler serves all record kinds")

    rule_rows(prog, rep, fn)
    rep.guarded(rule_no_item_is_cut, prog, rep)
    rule_flag(prog, rep)


def rule_no_item_is_cut(prog, rep, rid="R8"):
    """mmCIF values can be longer than the PDB column they are copied to (chain identifiers of large assemblies: AA, AB ...).  The assembly is
    analysed once more with every text item allowed to be longer than its column: such a value may lengthen the record - the record classes
    then refuse the line - but it is never cut, because cutting makes different chains, residues or atoms indistinguishable."""
    fn = prog.func("cif.py", "atom_site").node
    consts = prog.module_constants("cif.py")
    copies = find_copies(fn)
    r = rep.rule(rid, "an atom_site value longer than its PDB column is never cut to fit (two chains AA and AB would become one chain A)", floor=4)
    wide = dict(DOMAINS)
    for item, hi in (("auth_asym_id", 4), ("label_asym_id", 4), ("label_atom_id", 6), ("auth_atom_id", 6), ("label_comp_id", 5), ("auth_comp_id", 5),
                     ("type_symbol", 3)):
        wide[item] = [S(f"{item} 1-{hi}", 1, hi)]
    wide["auth_seq_id"] = [N("resSeq -999..123456", [-999, 1, 9999, 123456])]
    wide["id"] = [N("atom id 1..1234567", [1, 99999, 1234567])]
    identity = ("auth_asym_id", "label_asym_id", "label_atom_id", "auth_atom_id", "label_comp_id", "auth_comp_id", "auth_seq_id", "id", "pdbx_PDB_ins_code", "label_alt_id")
    for idx, (trynode, ctor) in enumerate(copies):
        rec, results, _disc = analyse_copy(prog, trynode, ctor, consts, domains=wide)
        cut = sorted({seg.src for _f, v in results for seg in v.segs if seg.kind == "fld" and seg.trunc and seg.src in identity})
        r.add(f"whole|copy{idx}", not cut, f"copy {idx} ({rec}): over {len(results)} paths with over-long values no identifying item is cut" if not cut else
              f"copy {idx} ({rec}): {cut} can be cut to fit the column - rows that differ only in the dropped characters become one chain / residue / atom",
              f"pdb2pqr/cif.py:{trynode.lineno} (atom_site, copy {idx}: {rec})")


def rule_rows(prog, rep, fn):
    """Every atom_site row is visited for the model it belongs to: full-range row loops without early exits."""
    from ..core import enclosing_loops
    r7 = rep.rule("R7", "every atom_site row is visited (full-range row loops, no early exit, rows selected by model number only)", floor=1)
    loops = [n for n in ast.walk(fn) if isinstance(n, ast.For) and "row_count" in U(n.iter)]
    if not loops:
        raise AnalysisError("cif.atom_site: no loop over the atom_site rows found")
    for k, lp in enumerate(loops):
        where = f"pdb2pqr/cif.py:{lp.lineno} (atom_site)"
        full = U(lp.iter) in ("range(atoms.row_count)", "range(0, atoms.row_count)", "range(0, atoms.row_count, 1)")
        exits = [x for x in ast.walk(lp) if isinstance(x, (ast.Break, ast.Return)) and (isinstance(x, ast.Return) or enclosing_loops(x)[0] is lp)]
        from ..core import canon_guards
        conts = [x for x in ast.walk(lp) if isinstance(x, ast.Continue) and enclosing_loops(x)[0] is lp
                 and not all(("pdbx_PDB_model_num" in t_ or "group_PDB" in t_) for t_, _ in canon_guards(x, lp))]
        r7.add(f"rows|loop{k}", full and not exits and not conts,
               f"row loop {U(lp.iter)}: {'full range' if full else 'NOT the full row range'}; early exits {len(exits)}, skips {len(conts)} "
               "(mmCIF prescribes no row order: rows of one model need not be contiguous)", where)
        # row selection tests at the top of the loop body: record kind and model number only
        sel = []
        for x in lp.body:
            if isinstance(x, ast.If):
                sel.append(U(x.test))
        okc = all(("group_PDB" in t_ or "pdbx_PDB_model_num" in t_) for t_ in sel)
        r7.add(f"row-selection|loop{k}", okc and bool(sel), f"rows are selected by {sel}", where)


    # models are handed on in the order in which they first appear in the file (the PDB reader keeps the first MODEL it meets)
    from ..guards import Flow
    from ..objinterp import ObjRunner
    cm = prog.func("cif.py", "count_models")
    wcm = f"pdb2pqr/cif.py:{cm.node.lineno} (count_models)"

    def category(nums, items):
        """Model of the parser's atom_site category: the items in the given column order, one row per model number."""
        rows = [[n_ if it_ == "pdbx_PDB_model_num" else f"{it_}:{k}" for it_ in items] for k, n_ in enumerate(nums)]
        return {"__class__": "DataCategory", "name": "atom_site", "row_count": len(nums), "attribute_list": list(items), "row_list": rows, "data": rows}

    current = {}

    def extra(runner, interp, call, args, kw):
        if isinstance(call.func, ast.Attribute) and call.func.attr in ("get_object", "get_value", "get_attribute_index", "get_attribute_list", "has_attribute",
                                                                        "get_value_or_default", "get_row_count", "get_name"):
            recv = interp.ev(call.func.value)
            a_ = call.func.attr
            if recv is current["block"] and a_ == "get_object":
                return current["atoms"] if args and args[0] == "atom_site" else None
            if isinstance(recv, dict) and recv.get("__class__") == "DataCategory":
                items = recv["attribute_list"]
                if a_ in ("get_value", "get_value_or_default") and args and args[0] in items:
                    return recv["row_list"][args[1] if len(args) > 1 else 0][items.index(args[0])]
                if a_ == "get_attribute_index" and args:
                    return items.index(args[0]) if args[0] in items else -1
                if a_ == "get_attribute_list":
                    return list(items)
                if a_ == "has_attribute" and args:
                    return args[0] in items
                if a_ == "get_row_count":
                    return recv["row_count"]
                if a_ == "get_name":
                    return recv["name"]
        return NotImplemented

    # the records come out in the order of the rows (per model): the pipeline builds chains and finds their ends from the order of the records,
    # and a PDB file of the same structure lists a capping group or a modified residue (HETATM) where it sits in the chain
    ITEMS = ["group_PDB", "id", "type_symbol", "label_atom_id", "label_alt_id", "label_comp_id", "label_asym_id", "label_entity_id", "label_seq_id",
             "pdbx_PDB_ins_code", "Cartn_x", "Cartn_y", "Cartn_z", "occupancy", "B_iso_or_equiv", "pdbx_formal_charge", "auth_seq_id", "auth_comp_id",
             "auth_asym_id", "auth_atom_id", "pdbx_PDB_model_num"]

    def full_category(rows):
        """rows: [(group, serial, atom, residue name, residue number, model)]"""
        data = []
        for row in rows:
            g, ser, an, rn, seq, model = row[:6]
            v = {"group_PDB": g, "id": str(ser), "type_symbol": an[0], "label_atom_id": an, "label_alt_id": ".", "label_comp_id": rn, "label_asym_id": "A",
                 "label_entity_id": "1", "label_seq_id": str(seq), "pdbx_PDB_ins_code": "?", "Cartn_x": f"{ser}.000", "Cartn_y": "2.000", "Cartn_z": "3.000",
                 "occupancy": "1.00", "B_iso_or_equiv": "10.00", "pdbx_formal_charge": "?", "auth_seq_id": str(seq), "auth_comp_id": rn, "auth_asym_id": "A",
                 "auth_atom_id": an, "pdbx_PDB_model_num": str(model)}
            v.update(row[6] if len(row) > 6 else {})
            data.append([v[i] for i in ITEMS])
        return {"__class__": "DataCategory", "name": "atom_site", "row_count": len(data), "attribute_list": list(ITEMS), "row_list": data, "data": data}

    capped = [("HETATM", 1, "C", "ACE", 0), ("HETATM", 2, "O", "ACE", 0), ("HETATM", 3, "CH3", "ACE", 0), ("ATOM", 4, "N", "ALA", 1), ("ATOM", 5, "CA", "ALA", 1),
              ("ATOM", 6, "C", "ALA", 1), ("ATOM", 7, "O", "ALA", 1), ("HETATM", 8, "N", "MSE", 2), ("HETATM", 9, "CA", "MSE", 2), ("ATOM", 10, "N", "GLY", 3),
              ("ATOM", 11, "CA", "GLY", 3), ("HETATM", 12, "O", "HOH", 101)]
    layouts = [("one model, a cap in front of the chain and a modified residue inside it", [row + (1,) for row in capped]),
               ("two models, same rows", [row + (1,) for row in capped] + [row + (2,) for row in capped]),
               # mmCIF values are free-format text: three decimals, a B factor of 100 and more, a negative one, an occupancy with four decimals
               ("values written with more digits than the PDB columns hold", [
                   capped[3] + (1,), capped[4] + (1, {"B_iso_or_equiv": "105.250"}), capped[5] + (1, {"B_iso_or_equiv": "-12.345", "occupancy": "0.5000"}),
                   capped[6] + (1, {"occupancy": "1.00000"}), capped[9] + (1, {"B_iso_or_equiv": "1234.56"}), capped[10] + (1,)])]
    wa = f"pdb2pqr/cif.py:{fn.lineno} (atom_site)"
    for label, rows in layouts:
        current["atoms"], current["block"] = full_category(rows), {"__class__": "DataContainer"}
        run = ObjRunner(prog, "cif.py", extra_hook=extra)
        try:
            res = run.call_function("cif.py", "atom_site", current["block"])
        except Flow as fl:
            r7.bad(f"record-order|{label}", f"atom_site stops with {fl.value} on the model category ({label})", wa)
            continue
        recs = res[0] if isinstance(res, (tuple, list)) and res and isinstance(res[0], list) else None
        if recs is None:
            raise AnalysisError(f"cif.atom_site: the result on the model category is not (records, errors): {res!r:.120}")
        got, model = [], 1
        for rec in recs:
            cls = rec.get("__class__") if hasattr(rec, "get") else None
            if cls in ("ATOM", "HETATM"):
                got.append((cls, rec.get("serial"), model))
            elif cls == "ENDMDL":
                model += 1
        want = [(row[0], row[1], row[5]) for row in rows]
        ok = got == want
        first_bad = next((k for k, (a_, b_) in enumerate(zip(got, want)) if a_ != b_), min(len(got), len(want))) if not ok else None
        r7.add(f"record-order|{label}", ok, f"{label}: {len(rows)} rows -> {len(got)} coordinate records in row order" if ok else
               f"{label}: record {first_bad} is {got[first_bad] if first_bad < len(got) else 'missing'}, the row is {want[first_bad] if first_bad < len(want) else 'absent'} "
               f"(kind, serial, model) -- records {[(c[0], c[1]) for c in got[:12]]}: chain ends and residue order then differ from the PDB reading of the same structure", wa)

    # three files read one after the other in one process; mmCIF prescribes no item order, so each lists its items in another column order
    files = [(["9", "9", "10", "10", "9", "2"], ["group_PDB", "id", "pdbx_PDB_model_num", "Cartn_x"]),
             (["1", "1", "2"], ["pdbx_PDB_model_num", "group_PDB", "label_entity_id", "id", "Cartn_x"]),
             (["5", "4", "4"], ["group_PDB", "id", "label_entity_id", "Cartn_x", "pdbx_PDB_model_num"])]
    run = ObjRunner(prog, "cif.py", extra_hook=extra)
    for k, (nums, items) in enumerate(files):
        current["atoms"], current["block"] = category(nums, items), {"__class__": "DataContainer"}
        want = [x for i, x in enumerate(nums) if x not in nums[:i]]
        key = "model-order" if k == 0 else f"model-order|file {k + 1} of one process"
        try:
            got = run.call_function("cif.py", "count_models", current["block"])
        except Flow as fl:
            got = f"raises {fl.value}"
        r7.add(key, got == want, f"rows with model numbers {nums} (items in column order {items}): count_models yields {got}; order of first appearance is {want}" +
               ("" if got == want else " -- the first model emitted (the only one the pipeline keeps) is then not the first model of the file"), wcm)


def _strip_rec(sig):
    out = []
    for s in sig:
        parts = [p for p in s.split(" | ") if not p.startswith("0:")]
        # drop the record-name literal and its pad, keep everything from the serial on
        out.append(" | ".join(p for p in parts if "<REC>" not in p and "group_PDB" not in p))
    return out


def rule_flag(prog, rep):
    r = rep.rule("R6", "the input-format flag selects the reader by suffix and influences only header/TER/trailer output",
                 floor=4)
    gm = prog.func("io.py", "get_molecule").node
    try:
        dispatch_on_models(prog, r, gm)
        modelled = True
    except AnalysisError:
        modelled = False
        tests = [n for n in walk_no_defs(gm) if isinstance(n, ast.If) and any("read_cif" in U(c.func) for c in calls_in(n))]
        ok = bool(tests) and U(tests[0].test).replace('"', "'") in ("path.suffix.lower() == '.cif'", "path.suffix.casefold() == '.cif'")
        r.add("dispatch", ok, f"reader chosen by {U(tests[0].test) if tests else '<not found>'}",
              f"pdb2pqr/io.py:{gm.lineno} (get_molecule)")
    # the two printers: decided as a whole on model lines - with the flag set the output is the output without it minus the TER records, plus
    # (PQR only) the '#' trailer; the functions that only they call are then part of that verdict
    printers_modelled = set()
    try:
        from .shared import pqr_model, written_file
        lines = [ln for ln, w in pqr_model(prog)[0] if w is not None] + ["TER\n", "TERRIBLE 1\n", "END\n"]
        lines.insert(3, "TER\n")
        for printer in ("print_pqr", "print_pdb"):
            okp = True
            for ws in ((False, True) if printer == "print_pqr" else (False,)):
                plain = written_file(prog, lines, ws, False, printer)
                cif = written_file(prog, lines, ws, True, printer)
                want = [ln for ln in plain if ln[0:3] != "TER"] + (["#\n"] if printer == "print_pqr" else [])
                okp &= cif == want
            pf = prog.func("main.py", printer).node
            r.add(f"use|main.py::{printer}", okp, f"{printer} on model lines: with the flag set the output is the output without it, minus the TER records"
                  + (", plus the '#' trailer" if printer == "print_pqr" else "") + ("" if okp else " - NOT so"), f"pdb2pqr/main.py:{pf.lineno} ({printer})")
            printers_modelled.add(f"main.py::{printer}")
        # helpers called only from the printers
        grew = True
        while grew:
            grew = False
            for key, f in prog.funcs.items():
                if key in printers_modelled or f.module.rel != "main.py":
                    continue
                sites = [k2 for k2, f2 in prog.funcs.items() for c in calls_in(f2.node) if U(c.func).split(".")[-1] == f.node.name]
                if sites and all(k2 in printers_modelled for k2 in sites):
                    printers_modelled.add(key)
                    grew = True
    except AnalysisError:
        printers_modelled = set()
    # every load of is_cif
    for key, f in prog.funcs.items():
        if f.module.rel == "run.py" or (modelled and f.node is gm) or key in printers_modelled:  # decided as a whole on models
            continue
        for n in walk_no_defs(f.node):
            if isinstance(n, ast.Name) and n.id == "is_cif" and isinstance(n.ctx, ast.Load):
                p = parent(n)
                where = f"pdb2pqr/{f.module.rel}:{n.lineno} ({f.qual})"
                k = f"use|{f.key}:{U(_stmt(n))[:50]}"
                if isinstance(p, ast.keyword) or isinstance(p, ast.Call):
                    call = parent(p) if isinstance(p, ast.keyword) else p
                    callee = U(call.func).split(".")[-1]
                    r.add(k, callee in ("print_pqr", "print_pdb", "non_trivial"), f"forwarded to {callee}()", where)
                elif isinstance(p, (ast.Return, ast.Tuple)):
                    r.ok(k, "returned to the caller", where)
                else:
                    # must be (part of) an if-test whose arms only build headers, write lines or log
                    st = _stmt(n)
                    if not isinstance(st, ast.If):
                        r.bad(k, f"is_cif used in {type(st).__name__}: {U(st)[:60]}", where)
                        continue
                    harmless = True
                    controlled = list(st.body) + list(st.orelse)
                    from ..core import terminates
                    if terminates(st.body) or (st.orelse and terminates(st.orelse)):
                        blk_ = getattr(parent(st), "body", [])
                        if st in blk_:
                            controlled += blk_[blk_.index(st) + 1:]  # an early `continue`: the rest of the block is what the test controls
                    for s in iter_stmts(controlled):
                        if isinstance(s, ast.Expr) and isinstance(s.value, ast.Call):
                            nm = U(s.value.func)
                            if not (nm.startswith("_LOGGER.") or nm.endswith(".write")):
                                harmless = False
                        elif isinstance(s, ast.Assign):
                            picks_printer = all(isinstance(t, ast.Name) for t in s.targets) and "print_pqr_header" in U(s.value) and not any(
                                isinstance(c_, ast.Call) and U(c_.func).split(".")[-1] not in ("partial",) for c_ in ast.walk(s.value))
                            if not all(isinstance(t, ast.Name) and t.id in ("header",) for t in s.targets) and not picks_printer:
                                harmless = False  # (choosing which header printer to call - by name or functools.partial - is header construction)
                        elif isinstance(s, (ast.If, ast.Pass, ast.Continue)):
                            pass
                        else:
                            harmless = False
                    r.add(k, harmless, "controls only header construction, line writes or logging" if harmless else
                          "controls statements other than header construction / writes / logging", where)


MODEL_PATHS = ["1abc.cif", "1ABC.CIF", "x.Cif", "1abc.pdb", "1ABC.PDB", "1abc.ent", "1abc", "cif", "dir.cif/1abc.pdb", "1abc.cif.pdb",
               "1abc.pdb.cif", "cif.pdb", "1abc.mmcif"]


def dispatch_on_models(prog, r, gm):
    """get_molecule evaluated on model paths with the two readers replaced by distinguishable results: the records and the flag it returns
    must be the CIF reader's exactly when the suffix is .cif in any letter case, whether or not the reader reported errors."""
    from pathlib import PurePosixPath

    from ..guards import Flow, Obj
    from ..objinterp import FuncRef, ObjRunner
    where = f"pdb2pqr/io.py:{gm.lineno} (get_molecule)"
    for path in MODEL_PATHS:
        for errs in ([], ["unparsed line"]):
            used = []

            def hook(run, interp, call, args, kw, errs=errs, used=used):
                name = U(call.func)
                if name in ("Path", "pathlib.Path", "PurePath") and len(args) == 1 and isinstance(args[0], str):
                    p_ = PurePosixPath(args[0])
                    return Obj({"__class__": "<path>", "suffix": p_.suffix, "name": p_.name, "stem": p_.stem, "suffixes": list(p_.suffixes),
                                "__str__": args[0]})
                if name == "str" and len(args) == 1 and isinstance(args[0], dict) and args[0].get("__class__") == "<path>":
                    return args[0]["__str__"]
                if name == "get_pdb_file":
                    return Obj({"__class__": "<file>"})
                if name.endswith(".close") and isinstance(args, list) and not args:
                    return None
                held = interp.env.get(name) if isinstance(call.func, ast.Name) else None
                if isinstance(held, FuncRef):  # a reader held in a variable (read_records = cif.read_cif if ... else pdb.read_pdb)
                    name = {"cif.py::read_cif": "cif.read_cif", "pdb.py::read_pdb": "pdb.read_pdb"}.get(held.finfo.key, name)
                if name in ("cif.read_cif", "read_cif"):
                    used.append("cif")
                    return (["<records of the CIF reader>"], list(errs))
                if name in ("pdb.read_pdb", "read_pdb"):
                    used.append("pdb")
                    return (["<records of the PDB reader>"], list(errs))
                return NotImplemented

            run = ObjRunner(prog, "io.py", extra_hook=hook)
            try:
                res = run.call_function("io.py", "get_molecule", path)
            except Flow as fl:
                r.bad(f"dispatch|{path}|{'errors' if errs else 'clean'}", f"get_molecule({path!r}) raises {fl.value}", where)
                continue
            want_cif = PurePosixPath(path).suffix.lower() == ".cif"
            want = (["<records of the CIF reader>"], True) if want_cif else (["<records of the PDB reader>"], False)
            got = (list(res[0]), res[1]) if isinstance(res, (tuple, list)) and len(res) == 2 else res
            ok = got == want and used == ["cif" if want_cif else "pdb"]
            r.add(f"dispatch|{path}|{'errors' if errs else 'clean'}", ok,
                  f"get_molecule({path!r}) calls reader(s) {used} and returns {got!r}; expected {want!r}", where)


def _stmt(node):
    while node is not None and not isinstance(node, ast.stmt):
        node = parent(node)
    return node
