"""C18 -- DX to cube conversion preserves the grid data."""
from __future__ import annotations

import ast
import re

from ..core import AnalysisError, U, calls_in, guards_of, iter_stmts, try_fold, walk_no_defs


def check(prog, rep):
    rep.explanation = (
        "constant folding and slice-bound reasoning on io.write_cube's value loop (partition of the value list for "
        "every length), key agreement between io.read_dx and io.write_cube, token positions of the DX header "
        "keywords, cube header conventions"
    )
    rep.not_decided += ["numeric formatting beyond the format spec", "DX dialects the reader documents it does not support"]
    rd = prog.func("io.py", "read_dx").node
    wc = prog.func("io.py", "write_cube").node
    ww = f"pdb2pqr/io.py:{wc.lineno} (write_cube)"
    wr = f"pdb2pqr/io.py:{rd.lineno} (read_dx)"

    # ------------------------------------------------------------------ R1
    r1 = rep.rule("R1", "value chunks partition the value list for every length", floor=2)
    env = {}
    for st in wc.body:
        if isinstance(st, ast.Assign) and isinstance(st.targets[0], ast.Name):
            v = try_fold(st.value, env)
            if v is not None:
                env[st.targets[0].id] = v
    loops = [s for s in wc.body if isinstance(s, ast.For) and isinstance(s.iter, ast.Call) and U(s.iter.func) == "range"
             and any("len(" in U(a) for a in s.iter.args)]
    if len(loops) != 1:
        raise AnalysisError("write_cube: the chunked value loop was not found")
    loop = loops[0]
    ra = loop.iter.args
    if len(ra) != 3:
        raise AnalysisError(f"write_cube: unexpected range in the value loop: {U(loop.iter)}")
    start, step = try_fold(ra[0], env), try_fold(ra[2], env)
    lenexpr = U(ra[1])
    seq = lenexpr[4:-1] if lenexpr.startswith("len(") else None
    ivar = U(loop.target)
    if start != 0 or not isinstance(step, int) or seq is None:
        raise AnalysisError(f"write_cube: value loop {U(loop.iter)} left the analysable subset")
    # collect the arms: (condition expr or None, slice lower, slice upper expr)
    arms = []

    def collect(stmts, conds):
        local = dict(env)
        for st in stmts:
            if isinstance(st, ast.Assign) and isinstance(st.targets[0], ast.Name):
                local[st.targets[0].id] = st.value
            if isinstance(st, ast.If):
                collect(st.body, conds + [(st.test, True)])
                collect(st.orelse, conds + [(st.test, False)])
                continue
            for n in ast.walk(st):
                if isinstance(n, ast.Subscript) and U(n.value) == seq and isinstance(n.slice, ast.Slice):
                    lo, hi = n.slice.lower, n.slice.upper
                    if isinstance(hi, ast.Name) and isinstance(local.get(hi.id), ast.AST):
                        hi = local[hi.id]
                    arms.append((conds, lo, hi, n.lineno))
            writes = [c for c in calls_in(st) if U(c.func).endswith(".write")]
    collect(loop.body, [])
    if not arms:
        raise AnalysisError("write_cube: no slices of the value list inside the loop")

    def ev(expr, i, n):
        if expr is None:
            return None
        e2 = {ivar: i}
        e2.update({k: v for k, v in env.items() if isinstance(v, (int, float))})
        txt = U(expr).replace(f"len({seq})", str(n))
        try:
            return eval(compile(ast.Expression(ast.parse(txt, mode="eval").body), "<c18>", "eval"), {"__builtins__": {}}, e2)  # noqa: S307 -- arithmetic on extracted constants only
        except Exception as exc:  # noqa: BLE001
            raise AnalysisError(f"write_cube: cannot evaluate bound {txt!r}: {exc}") from exc

    bad_n = None
    for n in range(0, 5 * step + 3):
        cover = [0] * n
        order_ok = True
        lastpos = -1
        for i in range(0, n, step):
            for conds, lo, hi, _ in arms:
                if all(bool(ev(t, i, n)) == pol for t, pol in conds):
                    a = ev(lo, i, n) if lo is not None else 0
                    b = ev(hi, i, n) if hi is not None else n
                    for k in range(max(a, 0), min(b, n)):
                        cover[k] += 1
                        if k <= lastpos:
                            order_ok = False
                        lastpos = k
        if any(c != 1 for c in cover) or not order_ok:
            bad_n = (n, cover)
            break
    r1.add("partition", bad_n is None,
           f"loop step {step}, arms {[(' and '.join(('' if p else 'not ') + U(t) for t, p in c) or 'always', U(lo) if lo else '', U(hi) if hi else '') for c, lo, hi, _ in arms]}: "
           + ("every index of the value list is written exactly once, in order, for all list lengths 0.."
              f"{5 * step + 2} (bounds are periodic in the step)" if bad_n is None else
              f"for a list of {bad_n[0]} values the per-index write counts are {bad_n[1]}"), ww)
    consts = sorted({v for v in (step, env.get("stride")) if v is not None})
    r1.add("one-stride", len(consts) == 1, f"step of the loop and the named stride fold to {consts}", ww)

    # ------------------------------------------------------------------ R2
    r2 = rep.rule("R2", "values keep their file order (x outer, z inner)", floor=2)
    for fn, where, nm in ((rd, wr, "read_dx"), (wc, ww, "write_cube")):
        re_order = [U(c.func) for c in calls_in(fn) if U(c.func).split(".")[-1] in ("sort", "sorted", "reverse", "reversed", "reshape", "transpose", "shuffle")]
        r2.add(f"no-reorder|{nm}", not re_order, f"re-ordering calls in {nm}: {re_order or 'none'}", where)
    app = [c for c in calls_in(rd) if U(c.func).endswith('["values"].append') or U(c.func).endswith("['values'].append")]
    inner = bool(app) and isinstance(app[0].args[0], ast.Call) and U(app[0].args[0].func) == "float"
    r2.add("append-in-reading-order", inner and len(app) == 1, "every data token is appended as float in reading order "
           f"({len(app)} append site)", wr)
    # data tokens are only skipped for header keywords
    firsts = []
    for n in walk_no_defs(rd):
        if isinstance(n, ast.Compare) and U(n.left) == "words[0]":
            v = try_fold(n.comparators[0])
            firsts += v if isinstance(v, list) else [v]
    r2.add("header-keywords", set(firsts) == {"#", "attribute", "component", "object", "origin", "delta"},
           f"lines whose first token is in {sorted(map(str, firsts))} are treated as header; every other line is data", wr)

    # ------------------------------------------------------------------ R3
    r3 = rep.rule("R3", "header fields flow reader -> writer by key; cube conventions", floor=6)
    wkeys = set()
    for n in walk_no_defs(rd):
        if isinstance(n, ast.Dict):
            wkeys |= {k.value for k in n.keys if isinstance(k, ast.Constant)}
        if isinstance(n, ast.Subscript) and U(n.value) == "dx_dict" and isinstance(n.slice, ast.Constant):
            wkeys.add(n.slice.value)
    rkeys = {n.slice.value for n in walk_no_defs(wc) if isinstance(n, ast.Subscript) and U(n.value) == "data_dict"
             and isinstance(n.slice, ast.Constant)}
    r3.add("keys", rkeys <= wkeys and len(rkeys) == 4, f"read_dx writes keys {sorted(wkeys)}; write_cube reads {sorted(rkeys)}", ww)
    # counts from tokens 5..7 of `object 1`
    cnt = [s for s in iter_stmts(rd.body) if isinstance(s, ast.Assign) and "number of grid points" in U(s.targets[0])]
    ctxt = U(cnt[0].value) if cnt else ""
    g = [U(t) for t, pol in guards_of(cnt[0])] if cnt else []
    r3.add("counts-tokens", ctxt == "(int(words[5]), int(words[6]), int(words[7]))" and any("words[1] == '1'" in x for x in g)
           and any("words[0] == 'object'" in x for x in g), f"grid counts <- {ctxt} under {g}", wr)
    org = [s for s in iter_stmts(rd.body) if isinstance(s, ast.Assign) and "lower left corner" in U(s.targets[0])]
    otxt = U(org[0].value) if org else ""
    r3.add("origin-tokens", otxt == "[float(words[1]), float(words[2]), float(words[3])]", f"origin <- {otxt}", wr)
    dl = [U(s.value) for s in iter_stmts(rd.body) if isinstance(s, ast.Assign) and U(s.targets[0]) == "spacing"]
    apps = [c for c in calls_in(rd) if "grid spacing" in U(c.func) and U(c.func).endswith(".append")]
    r3.add("delta-rows", dl == ["[float(words[1]), float(words[2]), float(words[3])]"] and len(apps) == 1,
           f"each delta line appends {dl}", wr)
    src = U(wc)
    r3.add("signed-counts", "{-num_points[i]:" in src and "spacings[i][0]" in src and "spacings[i][1]" in src
           and "spacings[i][2]" in src, "cube axis lines write -counts[i] with spacing row i", ww)
    r3.add("origin-line", "{num_atoms:" in src and all(f"origin[{k}]" in src for k in range(3)) and "num_atoms = len(atom_list)" in src,
           "atom-count line carries len(atom_list) and the origin", ww)
    aloops = [s for s in wc.body if isinstance(s, ast.For) and U(s.iter) == "atom_list"]
    one = len(aloops) == 1 and len([c for c in calls_in(aloops[0]) if U(c.func).endswith(".write")]) == 1 \
        and not any(isinstance(s, (ast.If, ast.Continue, ast.Break)) for s in iter_stmts(aloops[0].body))
    r3.add("one-line-per-atom", one, "one unconditional write per element of atom_list", ww)
    xyz = all(f"atom.{c}:" in src for c in "xyz")
    r3.add("atom-coordinates", xyz, "atom lines carry atom.x, atom.y, atom.z", ww)

    # ------------------------------------------------------------------ R4
    r4 = rep.rule("R4", "values are printed with >= 5 significant decimals in exponent format", floor=1)
    specs = set()
    for n in walk_no_defs(loop):
        if isinstance(n, ast.FormattedValue) and n.format_spec is not None:
            specs.add(try_fold(n.format_spec))
    ok = bool(specs)
    for s in specs:
        m = re.search(r"\.(\d+)[eE]", s or "")
        ok &= bool(m) and int(m.group(1)) >= 5
    r4.add("value-spec", ok, f"value format specs: {sorted(map(str, specs))}", ww)
