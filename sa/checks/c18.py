"""C18 -- DX to cube conversion preserves the grid data."""
from __future__ import annotations

import ast
import re

from ..core import AnalysisError, U, calls_in, guards_of, iter_stmts, try_fold, walk_no_defs


def check(prog, rep):
    """Model evaluation first (any code shape); the shape-based rules are the fallback when the interpreter cannot follow."""
    rep.explanation = (
        "io.read_pqr, io.read_dx and io.write_cube evaluated by constant propagation on model files (every value count 0..44; a conversion "
        "with every header construct and one value per magnitude class); shape-based rules on the value loop and token positions as "
        "fallback"
    )
    rep.not_decided += ["DX dialects the reader documents it does not support"]
    n0 = len(rep.rules)
    rep.guarded(rule_model_partition, prog, rep)
    rep.guarded(rule_model_conversion, prog, rep)
    if not rep.deferred and len(rep.rules) == n0 + 2:
        rule_reader_state(prog, rep)
        return
    del rep.rules[n0:]
    rep.deferred.clear()
    check_by_shape(prog, rep)


def rule_reader_state(prog, rep):
    """The reader must not keep state between calls (a second conversion in one process); decided on the model by
    'second-read-equals-first' and structurally here: no module-level container is written by read_dx."""
    r = rep.rule("R3", "the DX reader keeps no state between conversions", floor=1)
    rd = prog.func("io.py", "read_dx")
    consts = set(prog.module_env("io.py"))
    writes = []
    for n in walk_no_defs(rd.node):
        if isinstance(n, ast.Call) and isinstance(n.func, ast.Attribute) and n.func.attr in ("append", "extend", "update", "setdefault", "insert"):
            base = n.func.value
            while isinstance(base, (ast.Subscript, ast.Attribute)):
                base = base.value
            if isinstance(base, ast.Name) and base.id in consts:
                writes.append(U(n)[:50])
        if isinstance(n, ast.Subscript) and isinstance(n.ctx, ast.Store):
            base = n.value
            while isinstance(base, (ast.Subscript, ast.Attribute)):
                base = base.value
            if isinstance(base, ast.Name) and base.id in consts:
                writes.append(U(n)[:50])
    shallow = [U(c)[:50] for c in calls_in(rd.node) if U(c.func) in ("dict", "copy.copy") and c.args and isinstance(c.args[0], ast.Name) and c.args[0].id in consts]
    r.add("reader-state-fresh", not writes and not shallow,
          "read_dx writes no module-level container and makes no shallow copy of one" if not writes and not shallow else
          f"read_dx shares module-level state between calls: {writes + shallow}: a second conversion in the same process appends to the first one's values",
          f"pdb2pqr/io.py:{rd.node.lineno} (read_dx)")


def rule_model_partition(prog, rep):
    """write_cube is evaluated for every value count 0..44 (more than seven rows of six): the value tokens written are the
    list, once, in order, at most six per row."""
    from ..guards import Flow, Obj
    from ..objinterp import ObjRunner
    r = rep.rule("R1", "value chunks partition the value list for every length", floor=1)
    wc = prog.func("io.py", "write_cube")
    where = f"pdb2pqr/io.py:{wc.node.lineno} (write_cube)"
    bad = None
    rows_seen = set()
    for n in range(0, 45):
        vals = [float(k + 1) + 0.12345 for k in range(n)]
        written = []

        def extra(runner, interp, call, args, kw, written=written):
            if isinstance(call.func, ast.Attribute) and call.func.attr == "write":
                recv = interp.ev(call.func.value)
                if isinstance(recv, dict) and recv.get("__class__") == "FileModel":
                    written.append(args[0])
                    return None
            return NotImplemented

        run = ObjRunner(prog, "io.py", extra_hook=extra)
        dx = {"grid spacing": [[1.0, 0.0, 0.0], [0.0, 1.0, 0.0], [0.0, 0.0, 1.0]], "values": vals, "number of grid points": (1, 1, max(n, 1)),
              "lower left corner": [0.0, 0.0, 0.0]}
        try:
            run.call_function("io.py", "write_cube", Obj({"__class__": "FileModel"}), dx, [])
        except Flow as fl:
            bad = (n, f"write_cube stops with {fl.value}")
            break
        lines = "".join(str(x) for x in written).split("\n")
        body = lines[6:]
        toks = " ".join(body).split()
        got = [_num(t_) for t_ in toks]
        rows_seen |= {len(ln.split()) for ln in body if ln.strip()}
        if len(got) != len(vals) or any(g_ is None or not _close(g_, v_, rel=6e-6, abs_=None) for g_, v_ in zip(got, vals)):
            bad = (n, f"{len(got)} value tokens {got[:8]}{'...' if len(got) > 8 else ''} for the {n} values {vals[:8]}{'...' if n > 8 else ''}")
            break
    r.add("partition", bad is None, "for every list length n = 0..44 the cube holds exactly the n values, once, in order" if bad is None else
          f"for a list of {bad[0]} values: {bad[1]}", where)
    r.add("row-length", bool(rows_seen) and max(rows_seen) <= 6, f"values per written row: {sorted(rows_seen)} (cube format: at most six per line)", where)


def check_by_shape(prog, rep):
    rep.explanation = (
        "constant folding and slice-bound reasoning on io.write_cube's value loop (partition of the value list for "
        "every length), key agreement between io.read_dx and io.write_cube, token positions of the DX header "
        "keywords, cube header conventions"
    )
    rep.not_decided += ["numeric formatting beyond the format spec", "DX dialects the reader documents it does not support"]
    rd = prog.func("io.py", "read_dx").node
    wc = prog.func("io.py", "write_cube").node
    ww = f"pdb2pqr/io.py:{wc.lineno} (write_cube)"
    wr = f"pdb2pqr/io.py:{rd.lineno} (read_dx)"

    # ------------------------------------------------------------------ R1
    r1 = rep.rule("R1", "value chunks partition the value list for every length", floor=2)
    # locate the value sequence: a local bound to data_dict["values"] (or the subscript itself)
    seqs = [U(st.targets[0]) for st in wc.body if isinstance(st, ast.Assign) and "data_dict['values']" in U(st.value) and isinstance(st.targets[0], ast.Name)]
    seq = seqs[0] if seqs else "data_dict['values']"
    first_use = min((n.lineno for n in ast.walk(wc) if isinstance(n, ast.Name) and n.id == seq and isinstance(n.ctx, ast.Load)), default=None)
    if first_use is None:
        raise AnalysisError("write_cube: the value list is never read")
    # the statements that emit values: everything from the binding of the value list on
    start = next((k for k, st in enumerate(wc.body) if any(isinstance(n, ast.Name) and n.id == seq for n in ast.walk(st))), None)
    emit_stmts = wc.body[start:]
    consts = {}
    for st in wc.body[:start]:
        if isinstance(st, ast.Assign) and isinstance(st.targets[0], ast.Name):
            v = try_fold(st.value, consts)
            if isinstance(v, (int, float)):
                consts[st.targets[0].id] = v
    window = None
    bad_n = None
    strides = set()
    for n in range(0, 45):
        cover = [0] * n
        order = []
        try:
            emit_indices(emit_stmts, seq, n, dict(consts), cover, order, strides)
        except AnalysisError:
            raise
        in_order = all(a < b for a, b in zip(order, order[1:]))
        if any(c != 1 for c in cover) or not in_order:
            bad_n = (n, cover, in_order)
            break
    r1.add("partition", bad_n is None,
           "the index sets read from the value list while writing cover [0,n) exactly once and in increasing order for every list "
           "length n = 0..44 (more than seven rows of six: the index arithmetic is periodic in the row length)" if bad_n is None else
           f"for a list of {bad_n[0]} values the per-index write counts are {bad_n[1]}" + ("" if bad_n[2] else " and the order is not increasing"), ww)
    row_lengths = sorted({k for k in strides if k})
    r1.add("row-length", row_lengths != [] and max(row_lengths) <= 6, f"values per written row: {row_lengths} (cube format: at most six per line)", ww)
    loop = None
    for st in emit_stmts:
        if isinstance(st, (ast.For, ast.While)):
            loop = st
    if loop is None:
        loop = ast.Module(body=emit_stmts, type_ignores=[])

    # ------------------------------------------------------------------ R2
    r2 = rep.rule("R2", "values keep their file order (x outer, z inner)", floor=2)
    for fn, where, nm in ((rd, wr, "read_dx"), (wc, ww, "write_cube")):
        re_order = [U(c.func) for c in calls_in(fn) if U(c.func).split(".")[-1] in ("sort", "sorted", "reverse", "reversed", "reshape", "transpose", "shuffle")]
        r2.add(f"no-reorder|{nm}", not re_order, f"re-ordering calls in {nm}: {re_order or 'none'}", where)
    app = [c for c in calls_in(rd) if U(c.func).endswith('["values"].append') or U(c.func).endswith("['values'].append")]
    inner = bool(app) and isinstance(app[0].args[0], ast.Call) and U(app[0].args[0].func) == "float"
    r2.add("append-in-reading-order", inner and len(app) == 1, "every data token is appended as float in reading order "
           f"({len(app)} append site)", wr)
    # data tokens are only skipped for header keywords
    firsts = []
    for n in walk_no_defs(rd):
        if isinstance(n, ast.Compare) and U(n.left) == "words[0]":
            v = try_fold(n.comparators[0])
            firsts += v if isinstance(v, list) else [v]
    r2.add("header-keywords", set(firsts) == {"#", "attribute", "component", "object", "origin", "delta"},
           f"lines whose first token is in {sorted(map(str, firsts))} are treated as header; every other line is data", wr)

    # ------------------------------------------------------------------ R3
    r3 = rep.rule("R3", "header fields flow reader -> writer by key; cube conventions", floor=6)
    wkeys = set()
    for n in walk_no_defs(rd):
        if isinstance(n, ast.Dict):
            wkeys |= {k.value for k in n.keys if isinstance(k, ast.Constant)}
        if isinstance(n, ast.Subscript) and U(n.value) == "dx_dict" and isinstance(n.slice, ast.Constant):
            wkeys.add(n.slice.value)
    rkeys = {n.slice.value for n in walk_no_defs(wc) if isinstance(n, ast.Subscript) and U(n.value) == "data_dict"
             and isinstance(n.slice, ast.Constant)}
    r3.add("keys", rkeys <= wkeys and len(rkeys) == 4, f"read_dx writes keys {sorted(wkeys)}; write_cube reads {sorted(rkeys)}", ww)
    # counts from tokens 5..7 of `object 1`
    cnt = [s for s in iter_stmts(rd.body) if isinstance(s, ast.Assign) and "number of grid points" in U(s.targets[0])]
    ctxt = U(cnt[0].value) if cnt else ""
    g = [U(t) for t, pol in guards_of(cnt[0])] if cnt else []
    r3.add("counts-tokens", ctxt == "(int(words[5]), int(words[6]), int(words[7]))" and any("words[1] == '1'" in x for x in g)
           and any("words[0] == 'object'" in x for x in g), f"grid counts <- {ctxt} under {g}", wr)
    org = [s for s in iter_stmts(rd.body) if isinstance(s, ast.Assign) and "lower left corner" in U(s.targets[0])]
    otxt = U(org[0].value) if org else ""
    r3.add("origin-tokens", otxt == "[float(words[1]), float(words[2]), float(words[3])]", f"origin <- {otxt}", wr)
    dl = [U(s.value) for s in iter_stmts(rd.body) if isinstance(s, ast.Assign) and U(s.targets[0]) == "spacing"]
    apps = [c for c in calls_in(rd) if "grid spacing" in U(c.func) and U(c.func).endswith(".append")]
    r3.add("delta-rows", dl == ["[float(words[1]), float(words[2]), float(words[3])]"] and len(apps) == 1,
           f"each delta line appends {dl}", wr)
    src = U(wc)
    r3.add("signed-counts", "{-num_points[i]:" in src and "spacings[i][0]" in src and "spacings[i][1]" in src
           and "spacings[i][2]" in src, "cube axis lines write -counts[i] with spacing row i", ww)
    r3.add("origin-line", "{num_atoms:" in src and all(f"origin[{k}]" in src for k in range(3)) and "num_atoms = len(atom_list)" in src,
           "atom-count line carries len(atom_list) and the origin", ww)
    aloops = [s for s in wc.body if isinstance(s, ast.For) and U(s.iter) == "atom_list"]
    one = len(aloops) == 1 and len([c for c in calls_in(aloops[0]) if U(c.func).endswith(".write")]) == 1 \
        and not any(isinstance(s, (ast.If, ast.Continue, ast.Break)) for s in iter_stmts(aloops[0].body))
    r3.add("one-line-per-atom", one, "one unconditional write per element of atom_list", ww)
    xyz = all(f"atom.{c}:" in src for c in "xyz")
    r3.add("atom-coordinates", xyz, "atom lines carry atom.x, atom.y, atom.z", ww)

    # the reader's result is built from containers created inside the call (no state shared between conversions)
    binds = [st for st in rd.body if isinstance(st, ast.Assign) and U(st.targets[0]) == "dx_dict"]
    fresh = len(binds) == 1 and isinstance(binds[0].value, ast.Dict) and all(
        isinstance(v, (ast.List, ast.Dict, ast.Constant, ast.Tuple)) or (isinstance(v, ast.Call) and U(v.func) in ("list", "dict")) for v in binds[0].value.values)
    r3.add("reader-state-fresh", fresh, "read_dx builds its result from literals created in the call" if fresh else
           f"read_dx builds its result from {U(binds[0].value) if binds else '?'}: containers that outlive the call are shared between conversions "
           "(a second conversion in the same process appends to the first one's values)", wr)
    rep.guarded(rule_model_conversion, prog, rep)
    # ------------------------------------------------------------------ R4
    r4 = rep.rule("R4", "values are printed with >= 5 significant decimals in exponent format", floor=1)
    specs = set()
    for st_ in emit_stmts:
        for n in ast.walk(st_):
            if isinstance(n, ast.FormattedValue) and n.format_spec is not None:
                specs.add(try_fold(n.format_spec))
    ok = bool(specs)
    for s in specs:
        m = re.search(r"\.(\d+)[eE]", s or "")
        ok &= bool(m) and int(m.group(1)) >= 5
    r4.add("value-spec", ok, f"value format specs: {sorted(map(str, specs))}", ww)


def emit_indices(stmts, seq, n, env, cover, order, strides):
    """Interpret the index arithmetic of the value-writing code for a value list of length n: every slice or iteration of the
    list records the indices it reads.  Integer arithmetic only; len(seq) is n; slices follow Python's slice semantics."""
    def ev(e):
        if isinstance(e, ast.Constant):
            return e.value
        if isinstance(e, ast.Name):
            if e.id in env:
                return env[e.id]
            raise AnalysisError(f"write_cube: free name {e.id} in the index arithmetic")
        if isinstance(e, ast.Call):
            name = U(e.func)
            if name == "len" and U(e.args[0]) == seq:
                return n
            if name == "len":
                v = ev(e.args[0])
                return len(v)
            if name == "divmod":
                return divmod(ev(e.args[0]), ev(e.args[1]))
            if name == "range":
                return list(range(*[ev(a) for a in e.args]))
            if name in ("min", "max", "int", "abs"):
                return {"min": min, "max": max, "int": int, "abs": abs}[name](*[ev(a) for a in e.args])
            if name == "enumerate":
                return list(enumerate(ev(e.args[0])))
            raise _Opaque()
        if isinstance(e, ast.BinOp):
            a, b = ev(e.left), ev(e.right)
            ops = {ast.Add: lambda: a + b, ast.Sub: lambda: a - b, ast.Mult: lambda: a * b, ast.FloorDiv: lambda: a // b,
                   ast.Mod: lambda: a % b, ast.Div: lambda: a / b}
            if type(e.op) in ops:
                return ops[type(e.op)]()
            raise _Opaque()
        if isinstance(e, ast.UnaryOp) and isinstance(e.op, ast.USub):
            return -ev(e.operand)
        if isinstance(e, ast.UnaryOp) and isinstance(e.op, ast.Not):
            return not ev(e.operand)
        if isinstance(e, ast.Compare) and len(e.ops) == 1:
            a, b = ev(e.left), ev(e.comparators[0])
            return {ast.Lt: a < b, ast.LtE: a <= b, ast.Gt: a > b, ast.GtE: a >= b, ast.Eq: a == b, ast.NotEq: a != b}[type(e.ops[0])]
        if isinstance(e, ast.BoolOp):
            vals = [ev(v) for v in e.values]
            return all(vals) if isinstance(e.op, ast.And) else any(vals)
        if isinstance(e, ast.Tuple):
            return tuple(ev(x) for x in e.elts)
        if isinstance(e, ast.Subscript) and U(e.value) == seq:
            return ("idx", read(e))
        raise _Opaque()

    def read(sub):
        """indices read by seq[...]"""
        sl = sub.slice
        if isinstance(sl, ast.Slice):
            lo = ev(sl.lower) if sl.lower is not None else None
            hi = ev(sl.upper) if sl.upper is not None else None
            st = ev(sl.step) if sl.step is not None else None
            return list(range(n))[slice(lo, hi, st)]
        i = ev(sl)
        return [list(range(n))[i]] if -n <= i < n else []

    def record(idx):
        strides.add(len(idx))
        for k in idx:
            cover[k] += 1
            order.append(k)

    def scan_reads(node):
        """record reads of seq in an expression, innermost first; iteration over bare seq reads everything"""
        for sub in ast.walk(node):
            if isinstance(sub, ast.Subscript) and U(sub.value) == seq:
                record(read(sub))
            elif isinstance(sub, ast.comprehension) and U(sub.iter) == seq:
                record(list(range(n)))

    def run(block):
        for st in block:
            if isinstance(st, ast.Assign):
                scan_reads(st.value)
                try:
                    val = ev(st.value)
                except _Opaque:
                    val = None
                tg = st.targets[0]
                if isinstance(tg, ast.Name):
                    env[tg.id] = val
                elif isinstance(tg, ast.Tuple) and isinstance(val, tuple) and len(val) == len(tg.elts):
                    for e_, v_ in zip(tg.elts, val):
                        env[U(e_)] = v_
            elif isinstance(st, ast.AugAssign) and isinstance(st.target, ast.Name):
                scan_reads(st.value)
                try:
                    cur, v = env.get(st.target.id), ev(st.value)
                    env[st.target.id] = cur + v if isinstance(st.op, ast.Add) else cur - v if isinstance(st.op, ast.Sub) else None
                except (_Opaque, TypeError):
                    env[st.target.id] = None
            elif isinstance(st, ast.Expr):
                scan_reads(st.value)
            elif isinstance(st, ast.If):
                try:
                    t = ev(st.test)
                except _Opaque:
                    raise AnalysisError(f"write_cube: undecidable test {U(st.test)!r} in the value-writing code")
                run(st.body if t else st.orelse)
            elif isinstance(st, ast.For):
                if U(st.iter) == seq:
                    record(list(range(n)))
                    continue
                try:
                    it = ev(st.iter)
                except _Opaque:
                    raise AnalysisError(f"write_cube: loop over {U(st.iter)!r} is outside the index arithmetic")
                if isinstance(it, tuple) and it and it[0] == "idx":
                    record(it[1])
                    continue
                for item in it:
                    if isinstance(st.target, ast.Name):
                        env[st.target.id] = item
                    elif isinstance(st.target, ast.Tuple):
                        for e_, v_ in zip(st.target.elts, item):
                            env[U(e_)] = v_
                    run(st.body)
            elif isinstance(st, (ast.Pass, ast.Return)):
                continue
            elif isinstance(st, ast.While):
                guard = 0
                while True:
                    try:
                        t = ev(st.test)
                    except _Opaque:
                        raise AnalysisError("write_cube: undecidable while-test in the value-writing code")
                    if not t:
                        break
                    run(st.body)
                    guard += 1
                    if guard > 1000:
                        raise AnalysisError("write_cube: value-writing loop does not terminate on the index arithmetic")
            else:
                raise AnalysisError(f"write_cube: statement {type(st).__name__} outside the recognised subset of the value-writing code")

    run(stmts)


DX_VALUES = [0.0, 1.0, -1.0, 5.97222497, -123456.789, 1e-300, -1e-300, 1e300, -1e300, 3.4e38 * 10, 1.2e-38 / 10, 0.1, 2.0 / 3.0, -7.25e-5, 9.999995,
             12.123456789, 13.23456789, 14.3456789, 15.456789, 16.56789, 17.6789012, 18.7890123, 19.8901234, 20.9012345, 21.0123456]  # 25 = 1 x 5 x 5 values: not a multiple of three or six
DX_COUNTS = (1, 5, 5)
DX_ORIGIN = (-1.5, 2.25, 3.0)
DX_DELTAS = [(0.5, 0.125, 0.0), (-0.0625, 0.25, 0.03125), (0.0, -0.75, 1.0)]  # a sheared, rotated grid: nine distinct entries, not symmetric


def dx_model_lines():
    lines = ["# Data from the model\n", "#\n",
             f"object 1 class gridpositions counts {DX_COUNTS[0]} {DX_COUNTS[1]} {DX_COUNTS[2]}\n",
             "origin " + " ".join(repr(x) for x in DX_ORIGIN) + "\n"]
    lines += ["delta " + " ".join(repr(x) for x in d) + "\n" for d in DX_DELTAS]
    lines += [f"object 2 class gridconnections counts {DX_COUNTS[0]} {DX_COUNTS[1]} {DX_COUNTS[2]}\n",
              f"object 3 class array type double rank 0 items {len(DX_VALUES)} data follows\n"]
    for i in range(0, len(DX_VALUES), 3):
        lines.append(" ".join(f"{v:.8e}" for v in DX_VALUES[i:i + 3]) + "\n")
    lines += ['attribute "dep" string "positions"\n', 'object "regular positions regular connections" class field\n',
              'component "positions" value 1\n', 'component "connections" value 2\n', 'component "data" value 3\n']
    return lines


def rule_model_conversion(prog, rep):
    """read_pqr, read_dx and write_cube are evaluated by constant propagation on a model conversion: a DX file with every
    header construct of the format and one value per magnitude class (25 values: not a multiple of three or six), and a
    PQR file with one line per layout class.  The cube text they produce is parsed and compared with the inputs."""
    from ..guards import Flow
    from ..objinterp import ObjRunner
    from .shared import pqr_model
    PQR_MODEL_LINES, _src = pqr_model(prog)
    r = rep.rule("R5", "model conversion: header, atom block and values of the cube equal the DX and PQR inputs", floor=6)
    where = "pdb2pqr/io.py (read_pqr, read_dx, write_cube)"
    written = []

    def extra(runner, interp, call, args, kw):
        if isinstance(call.func, ast.Attribute) and call.func.attr == "write":
            recv = interp.ev(call.func.value)
            if isinstance(recv, dict) and recv.get("__class__") == "FileModel":
                written.append(args[0])
                return None
        return NotImplemented

    run = ObjRunner(prog, "io.py", extra_hook=extra)
    try:
        atoms = run.call_function("io.py", "read_pqr", [ln for ln, _ in PQR_MODEL_LINES])
        dx = run.call_function("io.py", "read_dx", dx_model_lines())
        dx2 = run.call_function("io.py", "read_dx", dx_model_lines())
        run.call_function("io.py", "write_cube", {"__class__": "FileModel"}, dx, atoms)
    except Flow as fl:
        r.bad("model|runs", f"the conversion stops with {fl.value} on the model input", where)
        return
    # every PQR atom is listed: a coordinate record the reader cannot make sense of must stop the conversion, not shorten the atom block
    recs_ = [ln for ln, w in PQR_MODEL_LINES if w is not None]
    try:
        got_bad = run.call_function("io.py", "read_pqr", [recs_[0], "ATOM      9  CA  BAD A   9      12.3X5  41.153   3.834 -0.3200 2.0000\n", recs_[1]])
        r.bad("model|unreadable-atom-is-loud", f"a record with the coordinate '12.3X5' is skipped: read_pqr returns {len(got_bad) if isinstance(got_bad, list) else got_bad} "
              "atoms for three coordinate lines, so the cube would list fewer atoms than the PQR file has", where)
    except Flow:
        r.ok("model|unreadable-atom-is-loud", "a coordinate record that cannot be parsed stops the conversion with an error", where)
    # the PQR of a complex is often two written files one after the other: TER / END in the middle end nothing
    try:
        both = run.call_function("io.py", "read_pqr", recs_ + ["TER\n", "END\n"] + recs_ + ["TER\n", "END\n"])
        n_both = len(both) if isinstance(both, list) else None
        r.add("model|atoms-after-END", n_both == 2 * len(recs_), f"two PQR files concatenated (END in the middle): {n_both} atoms read for {2 * len(recs_)} coordinate records"
              + ("" if n_both == 2 * len(recs_) else " -- the cube lists fewer atoms than the PQR file has"), where)
    except Flow as fl:
        r.bad("model|atoms-after-END", f"read_pqr stops with {fl.value} on two concatenated PQR files", where)
    text = "".join(str(x) for x in written)
    lines = text.split("\n")
    want_atoms = [w for _, w in PQR_MODEL_LINES if w is not None]
    r.add("model|second-read-equals-first", isinstance(dx, dict) and isinstance(dx2, dict) and U_keys(dx) == U_keys(dx2)
          and all(dx[k] == dx2[k] for k in dx), "reading the same DX file twice in one process gives the same data", where)
    if len(lines) < 6 + len(want_atoms):
        r.bad("model|header", f"the cube has {len(lines)} lines; at least {6 + len(want_atoms)} expected", where)
        return
    # line 3: atom count and origin
    tok = lines[2].split()
    ok = len(tok) == 4 and _num(tok[0]) == len(want_atoms) and all(_close(_num(tok[1 + k]), DX_ORIGIN[k]) for k in range(3))
    r.add("model|count-and-origin", ok, f"third line {lines[2]!r}: atom count {len(want_atoms)} and origin {DX_ORIGIN} expected", where)
    ok = True
    for k in range(3):
        tok = lines[3 + k].split()
        ok &= len(tok) == 4 and _num(tok[0]) == -DX_COUNTS[k] and all(_close(_num(tok[1 + j]), DX_DELTAS[k][j]) for j in range(3))
    r.add("model|axes", ok, f"axis lines {lines[3:6]}: counts {tuple(-c for c in DX_COUNTS)} (negative: Angstrom units) with the delta rows "
          f"{DX_DELTAS} expected", where)
    ok, detail = True, ""
    for k, w in enumerate(want_atoms):
        tok = lines[6 + k].split()
        good = len(tok) == 5 and _num(tok[0]) == w["serial"] and _close(_num(tok[1]), w["charge"]) and all(
            _close(_num(tok[2 + j]), w["xyz"[j]]) for j in range(3))
        if not good:
            ok, detail = False, f"atom line {k + 1} is {lines[6 + k]!r}, expected serial {w['serial']} charge {w['charge']} at ({w['x']}, {w['y']}, {w['z']})"
            break
    r.add("model|atom-block", ok, detail or f"{len(want_atoms)} atom lines (ATOM and HETATM, all layouts) carry serial, charge, x, y, z", where)
    vals = " ".join(lines[6 + len(want_atoms):]).split()
    exp = [float(f"{v:.8e}") for v in DX_VALUES]
    okc = len(vals) == len(exp)
    bad = []
    if okc:
        for i, (tkn, v) in enumerate(zip(vals, exp)):
            g = _num(tkn)
            if g is None or not _close(g, v, rel=6e-6, abs_=None):
                bad.append(f"value {i}: {tkn} for {v!r}")
    r.add("model|values", okc and not bad, f"{len(vals)} value tokens for {len(exp)} DX values" + (f"; {bad[:4]}" if bad else
          "; each equals its DX value to the printed precision (magnitudes from 1e-300 to 1e300, zero, negatives)"), where)
    rows = [len(ln.split()) for ln in lines[6 + len(want_atoms):] if ln.strip()]
    r.add("model|rows", bool(rows) and max(rows) <= 6, f"values per row: {rows}", where)
    # counts wider than the usual columns: a long axis, a very long axis, and more than ten thousand atoms
    big_counts, n_big = (1234, 100000, 7), 12345
    written.clear()
    wide = dict(dx)
    key = next((k for k, v in dx.items() if list(v) == list(DX_COUNTS)), None) if isinstance(dx, dict) else None
    if key is None:
        raise AnalysisError("read_dx: the grid counts are not stored as one entry of the returned mapping")
    wide[key] = type(dx[key])(big_counts) if isinstance(dx[key], (list, tuple)) else list(big_counts)
    try:
        run.call_function("io.py", "write_cube", {"__class__": "FileModel"}, wide, [atoms[0]] * n_big)
    except Flow as fl:
        r.bad("model|wide-counts", f"write_cube stops with {fl.value} for grid counts {big_counts} and {n_big} atoms", where)
        return
    hl = "".join(str(x) for x in written).split("\n")[2:6]
    got = [_num(ln.split()[0]) if ln.split() else None for ln in hl]
    r.add("model|wide-counts", got == [n_big, -big_counts[0], -big_counts[1], -big_counts[2]],
          f"header integers {got} for {n_big} atoms and grid counts {big_counts} (no digit may be cut or merged with the next field)", where)
    r.info["methods_interpreted"] = sorted(set(run.calls))


def U_keys(d):
    return sorted(map(str, d))


def _num(tok):
    try:
        return int(tok)
    except ValueError:
        try:
            return float(tok)
        except ValueError:
            return None


def _close(a, b, rel=1e-5, abs_=5e-7):
    import math
    if a is None:
        return False
    if math.isinf(b) or math.isinf(a):
        return a == b
    if abs_ is None:
        return a == b if b == 0 else abs(a - b) <= rel * abs(b)
    return abs(a - b) <= max(abs_, rel * abs(b))


class _Opaque(Exception):
    pass
