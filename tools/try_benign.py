#!/usr/bin/env python3
"""Dev helper: run every check against behaviour-preserving refactorings (diffs against /repo HEAD); all must stay silent.

usage: tools/try_benign.py <dir-with-refactor*.diff> [C01 ...]
"""
import subprocess
import sys
from pathlib import Path

V = Path(__file__).resolve().parent.parent
d = Path(sys.argv[1])
props = sys.argv[2:]
bad = 0
for diff in sorted(d.glob("refactor*.diff")):
    r = subprocess.run([str(V / "tools" / "try_seed.py"), str(diff), *props], capture_output=True, text=True)
    noisy = [ln for ln in r.stdout.splitlines() if ": FIRED" in ln or ": analysis-error" in ln or "PATCH FAILED" in ln]
    print(f"{diff.name}: {'silent' if not noisy else 'NOISY'}")
    for ln in noisy:
        bad += 1
        print("   ", ln[:260])
sys.exit(1 if bad else 0)
