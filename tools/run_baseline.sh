#!/bin/bash
# Dev helper (not a check): run the repository's pinned baseline in a tree and compare
# with /root/.vp/BASELINE.json's stable_pass list.  usage: run_baseline.sh [tree] [tag]
TREE=${1:-/repo}; TAG=${2:-base}
OUT=/tmp/baseline_$TAG
cd "$TREE" && /venv/bin/python -m pytest -ra -q -p no:cacheprovider --timeout=900 \
   --continue-on-collection-errors --junitxml=$OUT.xml > $OUT.log 2>&1
python3 - "$OUT.xml" <<'PY'
import json,sys,xml.etree.ElementTree as ET
b=json.load(open('/root/.vp/BASELINE.json'))
stable=set(b['stable_pass'])
root=ET.parse(sys.argv[1]).getroot()
passed=set()
for tc in root.iter('testcase'):
    ok=not any(c.tag in('failure','error','skipped') for c in tc)
    if ok: passed.add(f"{tc.get('classname')}::{tc.get('name')}")
missing=sorted(stable-passed)
print("stable",len(stable),"passed-now",len(passed),"stable-but-not-passing",len(missing))
for m in missing: print("  MISSING",m)
PY
