#!/usr/bin/env python3
"""Regenerate MANIFEST.json from the per-property metadata below (dev helper, not a check)."""
import json
import sys
from pathlib import Path

V = Path(__file__).resolve().parent.parent
sys.path.insert(0, str(V))
from sa.manifest_meta import META, NOT_APPLICABLE  # noqa: E402

checks = []
for pid in sorted(META):
    m = META[pid]
    if not (V / "sa" / "checks" / f"{pid.lower()}.py").exists():
        continue
    checks.append({
        "property_id": pid,
        "quick_cmd": f"./vcheck {pid} --tier quick",
        "thorough_cmd": f"./vcheck {pid} --tier thorough",
        "evidence_file": f"evidence/{pid}.json",
        "replay_cmd_template": "./vcheck show {path}",
        "engine": m["engine"],
        "technique": m["technique"],
        "level_claimed": {"category": "other", "text": m["text"], "design_ref": f"DESIGN.md section 3 {pid}"},
        "level_note": m["note"],
    })
claimed = {c["property_id"] for c in checks}
na = [{"property_id": p, "reason": r} for p, r in sorted(NOT_APPLICABLE.items()) if p not in claimed]
for i in range(1, 19):
    p = f"C{i:02d}"
    if p not in claimed and p not in NOT_APPLICABLE:
        na.append({"property_id": p, "reason": "static rule set for this property is designed (DESIGN.md section 3) "
                   "but not yet built in this revision; nothing is claimed"})
man = {
    "version": 1,
    "setup_cmd": "true",
    "hooks": {"guard": "PDB2PQR_VERIF", "enable": "no hooks: the checks read /repo's source and data tables only "
              "(static analysis); the guard name is unused", "baseline_off_cmd":
              "cd /repo && /venv/bin/python -m pytest -ra -q -p no:cacheprovider --timeout=900 "
              "--continue-on-collection-errors", "source_commits": [], "add_only": True},
    "engines": [{"name": "sa", "path": "sa/", "serves_properties": sorted(claimed),
                 "kind_free_text": "repository-specific static analyser (python ast, guard/decision-table extraction, "
                 "string-layout abstract interpretation, call graph + effects, independent table model); never "
                 "imports or runs pdb2pqr"}],
    "checks": checks,
    "notes": "Technique family: static analysis only. exit 0 = all obligations discharged or listed in "
             "KNOWN_FINDINGS.txt (printed as KNOWN-FINDING); exit 1 + VIOLATION line = undischarged obligation; "
             "exit 2 + ANALYSIS-ERROR = an anchor vanished or code left the analysable subset (never a pass). "
             "VERIF_REPO overrides the tree analysed (default /repo).",
    "not_applicable": sorted(na, key=lambda d: d["property_id"]),
}
(V / "MANIFEST.json").write_text(json.dumps(man, indent=1) + "\n")
print("claimed:", sorted(claimed), "not applicable:", [d["property_id"] for d in man["not_applicable"]])
