#!/usr/bin/env python3
"""Dev helper: run every check against every seeded change (on scratch copies) and write seeded/README.md.

usage: tools/seed_matrix.py [name ...]      (default: every directory under seeded/)
Each seeded/<name>/meta.json gets "caught_by" refreshed; README.md is rewritten from all meta files.
"""
import json
import subprocess
import sys
from concurrent.futures import ThreadPoolExecutor
from pathlib import Path

V = Path(__file__).resolve().parent.parent
S = V / "seeded"
names = sys.argv[1:] or sorted(p.name for p in S.iterdir() if (p / "patch.diff").exists())


def run(name):
    r = subprocess.run([str(V / "tools" / "try_seed.py"), str(S / name / "patch.diff")], capture_output=True, text=True)
    caught, errors = {}, {}
    for ln in r.stdout.splitlines():
        if ": FIRED" in ln:
            prop, rest = ln.split(": FIRED", 1)
            caught[prop] = [k.strip() for k in rest.split(";") if k.strip()][:4]
        elif ": analysis-error" in ln:
            prop, rest = ln.split(": analysis-error", 1)
            errors[prop] = rest.strip()[:160]
    meta = json.loads((S / name / "meta.json").read_text())
    meta["caught_by"] = caught
    meta["analysis_errors"] = errors
    meta.pop("checks_at_intake", None)
    (S / name / "meta.json").write_text(json.dumps(meta, indent=1) + "\n")
    print(name, "caught by", sorted(caught) or "NOTHING", ("errors " + str(sorted(errors))) if errors else "")
    return name


with ThreadPoolExecutor(max_workers=3) as ex:
    list(ex.map(run, names))

rows = []
for d in sorted(p for p in S.iterdir() if (p / "meta.json").exists()):
    m = json.loads((d / "meta.json").read_text())
    own = m.get("property_id", d.name[:3])
    cb = m.get("caught_by", {})
    first = "; ".join(f"{k.split(' key=')[0]} `{k.split(' key=')[1][:60]}`" if " key=" in k else k for k in cb.get(own, [])[:2])
    others = ", ".join(p for p in sorted(cb) if p != own)
    conf = m.get("confirmed", {})
    verified = conf.get("demo_passes_unmodified") and conf.get("demo_fails_patched") and conf.get("compiles") and "not-passing 0" in str(conf.get("baseline_with_patch"))
    rows.append(f"| {d.name} | {', '.join(m.get('files_changed', []))} | {m.get('summary', '')[:170].replace('|', '/')}... | "
                f"{'yes' if verified else 'NO'} | {first or ('**missed** - ' + m.get('missed_reason', '') if own not in cb else '-')} | {others or '-'} |")
readme = """# Seeded changes

Each directory holds one realistic change to pdb2pqr that breaks the named property while the package still compiles and the
pinned 151-test baseline still passes: `patch.diff`, `demo.py` (exits 0 on the unmodified tree, non-zero with the change;
run from the root of a checkout with `PYTHONPATH=<checkout> /venv/bin/python demo.py`), and `meta.json` (property, what the
change needs in order to manifest, what was run to confirm it, which checks report it).  The changes were written by
sub-agents that saw only the property text and a scratch worktree; each was re-confirmed independently with
`tools/intake_seed.py` (fresh worktree: demo before/after, compileall, baseline) and is never committed to the repository.

To replay one against the checks: `git -C /repo apply /verif/seeded/<name>/patch.diff; /verif/vcheck <property>;
git -C /repo checkout -- .` -- or, without touching /repo, `tools/try_seed.py seeded/<name>/patch.diff`.
`tools/seed_matrix.py` reruns the whole matrix and rewrites this file.

| change | files | what it does | confirmed | reported by its property's check (first keys) | also reported by |
|---|---|---|---|---|---|
""" + "\n".join(rows) + "\n"
(S / "README.md").write_text(readme)
print("wrote", S / "README.md")
