#!/usr/bin/env python3
"""Dev helper: run every check against every behaviour-preserving refactoring under benign/ (scratch copies); all silent expected.

usage: tools/benign_matrix.py [name ...]"""
import subprocess
import sys
from concurrent.futures import ThreadPoolExecutor
from pathlib import Path

V = Path(__file__).resolve().parent.parent
B = V / "benign"
names = sys.argv[1:] or sorted(p.name for p in B.iterdir() if (p / "patch.diff").exists())


def run(name):
    r = subprocess.run([str(V / "tools" / "try_seed.py"), str(B / name / "patch.diff")], capture_output=True, text=True)
    noisy = [ln.strip()[:300] for ln in r.stdout.splitlines() if ": FIRED" in ln or ": analysis-error" in ln or "PATCH FAILED" in ln]
    return name, noisy


with ThreadPoolExecutor(max_workers=3) as ex:
    res = list(ex.map(run, names))
bad = 0
for name, noisy in res:
    if noisy:
        bad += 1
        print(f"{name}: NOISY")
        for ln in noisy:
            print("    " + ln)
print(f"{len(res) - bad} of {len(res)} refactorings leave all checks silent")
sys.exit(1 if bad else 0)
