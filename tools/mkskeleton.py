#!/usr/bin/env python3
"""Record the reference naming (sa/ref_skeleton.json) from a tree: tools/mkskeleton.py [root]   (default /repo).

Run after a deliberate change of the names the rules refer to (e.g. after a repair commit in the repository)."""
import json
import sys
from pathlib import Path

sys.path.insert(0, str(Path(__file__).resolve().parent.parent))
from sa import alpha  # noqa: E402

root = Path(sys.argv[1] if len(sys.argv) > 1 else "/repo")
sk = alpha.build(root)
alpha.SKELETON.write_text(json.dumps(sk, separators=(",", ":"), sort_keys=True) + "\n")
print("functions:", sum(len(v) for v in sk.values()), "bytes:", alpha.SKELETON.stat().st_size)
