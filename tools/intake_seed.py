#!/usr/bin/env python3
"""Dev helper: verify a sub-agent's seeded change independently and file it under /verif/seeded/.

usage: tools/intake_seed.py <prop> <seed-dir> <suffix> <dest-name> [--skip-baseline]
  e.g. tools/intake_seed.py C01 /tmp/seed_C01/seed "" C01-a
Steps (all in a fresh scratch worktree of /repo HEAD, removed afterwards):
  1. demo passes on the unmodified tree; 2. patch applies, package byte-compiles; 3. demo fails with the patch;
  4. the pinned baseline (151 tests) still passes with the patch; 5. run every check against the patched package.
"""
import json
import os
import shutil
import subprocess
import sys
import tempfile
from pathlib import Path

V = Path(__file__).resolve().parent.parent
prop, seeddir, suffix, dest = sys.argv[1], Path(sys.argv[2]), sys.argv[3], sys.argv[4]
skip_base = "--skip-baseline" in sys.argv
patch = seeddir / f"patch{suffix}.diff"
demo = seeddir / f"demo{suffix}.py"
meta = seeddir / f"meta{suffix}.json"
for f in (patch, demo, meta):
    if not f.exists():
        sys.exit(f"missing {f}")
wt = Path(tempfile.mkdtemp(prefix="intake_"))
shutil.rmtree(wt)
log = {}


def sh(cmd, **kw):
    env = dict(os.environ)
    if kw.get("cwd"):
        env["PYTHONPATH"] = str(kw["cwd"])  # demos run as `python seed/demo.py` must import the worktree's package
    return subprocess.run(cmd, shell=isinstance(cmd, str), capture_output=True, text=True, env=env, **kw)


try:
    r = sh(["git", "-C", "/repo", "worktree", "add", "-q", "--detach", str(wt), "HEAD"])
    if r.returncode:
        sys.exit("worktree failed: " + r.stderr)
    (wt / "seed").mkdir()
    shutil.copy(demo, wt / "seed" / demo.name)
    for extra in seeddir.iterdir():
        if extra.suffix in (".pdb", ".mol2", ".cif", ".txt", ".dat", ".names", ".dx", ".pqr") :
            shutil.copy(extra, wt / "seed" / extra.name)
    r = sh(["/venv/bin/python", f"seed/{demo.name}"], cwd=wt, timeout=1800)
    log["demo_unmodified_exit"] = r.returncode
    print("1. demo on unmodified tree: exit", r.returncode, (r.stdout.strip().splitlines() or [""])[-1][:150])
    r = sh(["git", "apply", "--whitespace=nowarn", str(patch)], cwd=wt)
    if r.returncode:
        sys.exit("patch does not apply: " + r.stderr)
    r = sh(["/venv/bin/python", "-m", "compileall", "-q", "pdb2pqr"], cwd=wt)
    log["compiles"] = r.returncode == 0
    print("2. patch applies; compileall exit", r.returncode)
    r = sh(["/venv/bin/python", f"seed/{demo.name}"], cwd=wt, timeout=1800)
    log["demo_patched_exit"] = r.returncode
    print("3. demo on patched tree: exit", r.returncode, (r.stdout.strip().splitlines() or [""])[-1][:200])
    if not skip_base:
        r = sh(["bash", str(V / "tools" / "run_baseline.sh"), str(wt), f"intake_{dest}"], timeout=3600)
        line = (r.stdout.strip().splitlines() or [""])[0]
        log["baseline"] = line
        print("4. baseline:", line, *r.stdout.strip().splitlines()[1:4])
    r = sh([str(V / "tools" / "try_seed.py"), str(patch)])
    print("5. checks:\n" + r.stdout)
    log["checks"] = r.stdout.strip().splitlines()
    ok = log["demo_unmodified_exit"] == 0 and log["demo_patched_exit"] != 0 and log["compiles"] and (skip_base or "stable-but-not-passing 0" in log.get("baseline", ""))
    print("VERIFIED" if ok else "NOT VERIFIED", "; caught" if r.returncode == 0 else "; MISSED by all checks")
    out = V / "seeded" / dest
    out.mkdir(parents=True, exist_ok=True)
    shutil.copy(patch, out / "patch.diff")
    shutil.copy(demo, out / "demo.py")
    m = json.loads(meta.read_text())
    m["property_id"] = prop
    m["confirmed"] = {"demo_passes_unmodified": log["demo_unmodified_exit"] == 0, "demo_fails_patched": log["demo_patched_exit"] != 0,
                      "compiles": log["compiles"], "baseline_with_patch": log.get("baseline", "skipped"),
                      "how": "fresh git worktree of /repo HEAD; /venv/bin/python seed/demo.py before and after git apply; tools/run_baseline.sh"}
    m["checks_at_intake"] = log["checks"]
    (out / "meta.json").write_text(json.dumps(m, indent=1) + "\n")
finally:
    sh(["git", "-C", "/repo", "worktree", "remove", "--force", str(wt)])
    shutil.rmtree(wt, ignore_errors=True)
