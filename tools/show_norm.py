#!/usr/bin/env python3
"""Dev helper: print a function as the checks see it (after un-extraction, desugaring, renaming) for /repo plus an optional patch.
usage: tools/show_norm.py <rel> <qual> [patch.diff]"""
import ast, os, shutil, subprocess, sys, tempfile
from pathlib import Path
V = Path(__file__).resolve().parent.parent
sys.path.insert(0, str(V))
rel, qual = sys.argv[1], sys.argv[2]
tmp = None
if len(sys.argv) > 3:
    tmp = Path(tempfile.mkdtemp(prefix="shown_"))
    shutil.copytree("/repo/pdb2pqr", tmp / "pdb2pqr", ignore=shutil.ignore_patterns("__pycache__"))
    subprocess.run(["patch", "-p1", "-s", "-i", str(Path(sys.argv[3]).resolve())], cwd=tmp, check=True)
    os.environ["VERIF_REPO"] = str(tmp)
from sa.core import Program
prog = Program()
print("inlined:", prog.unextracted)
print(ast.unparse(prog.func(rel, qual).node))
if tmp:
    shutil.rmtree(tmp)
