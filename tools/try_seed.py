#!/usr/bin/env python3
"""Dev helper: apply a seeded patch to a scratch copy of /repo's package and run checks against it.

usage: tools/try_seed.py <patch.diff> [C01 C02 ...]     (default: all 18)
Prints, per property, silent / FIRED (with the violated rule keys) / analysis-error.
"""
import os
import shutil
import subprocess
import sys
import tempfile
from concurrent.futures import ThreadPoolExecutor
from pathlib import Path

V = Path(__file__).resolve().parent.parent
patch = Path(sys.argv[1]).resolve()
props = sys.argv[2:] or [f"C{i:02d}" for i in range(1, 19)]
tmp = Path(tempfile.mkdtemp(prefix="seedtry_"))
try:
    shutil.copytree("/repo/pdb2pqr", tmp / "pdb2pqr", ignore=shutil.ignore_patterns("__pycache__"))
    r = subprocess.run(["patch", "-p1", "-s", "-i", str(patch)], cwd=tmp, capture_output=True, text=True)
    if r.returncode != 0:
        print("PATCH FAILED:", r.stdout, r.stderr)
        sys.exit(2)

    def run(p):
        env = dict(os.environ, VERIF_REPO=str(tmp), VERIF_EVIDENCE_DIR=str(tmp / "ev" / p))
        out = subprocess.run([str(V / "vcheck"), p], cwd=V, env=env, capture_output=True, text=True)
        keys = [ln.strip()[len("violated "):] for ln in out.stdout.splitlines() if ln.startswith("  violated ")]
        err = [ln for ln in out.stdout.splitlines() if ln.startswith("ANALYSIS-ERROR")]
        return p, out.returncode, keys, err

    with ThreadPoolExecutor(max_workers=16) as ex:
        res = list(ex.map(run, props))
    fired = False
    for p, code, keys, err in res:
        if code == 1:
            fired = True
            print(f"{p}: FIRED  " + "; ".join(keys[:6]))
        elif code == 2:
            print(f"{p}: analysis-error  {err[0][:160] if err else ''}")
    print("silent:", " ".join(p for p, code, _, _ in res if code == 0))
    sys.exit(0 if fired else 1)
finally:
    shutil.rmtree(tmp, ignore_errors=True)
