#!/usr/bin/env python3
"""Dev helper: behaviour-preserving rewrite of the package (consistent renaming of local variables, then ast.unparse)
into a scratch copy, and a run of every check against it.  Every check must stay silent (exit 0).

usage: tools/alpha_fuzz.py [--mode locals|loopvars] [--keep] [C01 ...]
"""
import ast
import os
import shutil
import subprocess
import sys
import tempfile
from concurrent.futures import ThreadPoolExecutor
from pathlib import Path

V = Path(__file__).resolve().parent.parent
args = [a for a in sys.argv[1:] if not a.startswith("--")]
mode = "locals"
if "--mode" in sys.argv:
    mode = sys.argv[sys.argv.index("--mode") + 1]
    args = [a for a in args if a != mode]
props = args or [f"C{i:02d}" for i in range(1, 19)]


sys.path.insert(0, str(V))
from sa.refactor_fuzz import rewrite as _rewrite  # noqa: E402


def rewrite(src):
    return _rewrite(src, mode)


tmp = Path(tempfile.mkdtemp(prefix="alpha_"))
try:
    shutil.copytree("/repo/pdb2pqr", tmp / "pdb2pqr", ignore=shutil.ignore_patterns("__pycache__"))
    n = 0
    for p in (tmp / "pdb2pqr").rglob("*.py"):
        new = rewrite(p.read_text(encoding="utf-8"))
        compile(new, str(p), "exec")
        p.write_text(new, encoding="utf-8")
        n += 1
    print(f"rewrote {n} files ({mode}) in {tmp}")

    def run(p):
        env = dict(os.environ, VERIF_REPO=str(tmp), VERIF_EVIDENCE_DIR=str(tmp / "ev" / p))
        out = subprocess.run([str(V / "vcheck"), p], cwd=V, env=env, capture_output=True, text=True)
        keys = [ln.strip()[len("violated "):] for ln in out.stdout.splitlines() if ln.startswith("  violated ")]
        err = [ln for ln in out.stdout.splitlines() if ln.startswith("ANALYSIS-ERROR")]
        return p, out.returncode, keys, err

    with ThreadPoolExecutor(max_workers=16) as ex:
        res = list(ex.map(run, props))
    bad = 0
    for p, code, keys, err in res:
        if code == 1:
            bad += 1
            print(f"{p}: FALSE ALARM ({len(keys)})  " + "; ".join(keys[:8]))
        elif code == 2:
            bad += 1
            print(f"{p}: analysis-error  {err[0][:200] if err else ''}")
    print("silent:", " ".join(p for p, code, _, _ in res if code == 0))
    if "--keep" in sys.argv:
        print("kept", tmp)
    sys.exit(1 if bad else 0)
finally:
    if "--keep" not in sys.argv:
        shutil.rmtree(tmp, ignore_errors=True)
